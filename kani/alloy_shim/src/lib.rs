//! re-export of the real alloy-primitives under the path the repository uses (`alloy::primitives`)
pub use alloy_primitives as primitives;
