#![allow(dead_code)]
use crate::db::types::*;

pub fn lex_lt(a: &[u8], b: &[u8]) -> bool {
    // byte-wise lexicographic order (RocksDB default comparator) for equal-length encodings
    let mut i = 0;
    while i < a.len() && i < b.len() {
        if a[i] != b[i] {
            return a[i] < b[i];
        }
        i += 1;
    }
    a.len() < b.len()
}

// ---- u64: big endian, 8 bytes, round trip, exact consumption, order (all 2^64 values: complete) -------------
#[kani::proof]
#[kani::unwind(10)]
pub fn u64_roundtrip() {
    let x: u64 = kani::any();
    let mut buf = vec![0xAAu8];            // encoding appends to an existing buffer (self-delimiting / concatenation)
    x.encode(&mut buf);
    assert!(buf.len() == 9 && buf[0] == 0xAA);
    assert!(buf[1..9] == x.to_be_bytes());
    buf.push(0x55);
    let (y, off) = u64::decode(&buf, 1).unwrap();
    assert!(y == x && off == 9);
    kani::cover!(true);
}

#[kani::proof]
#[kani::unwind(10)]
pub fn u64_order() {
    let a: u64 = kani::any();
    let b: u64 = kani::any();
    let ea = a.encode_vec();
    let eb = b.encode_vec();
    assert!(lex_lt(&ea, &eb) == (a < b));
    assert!((ea == eb) == (a == b));
    kani::cover!(true);
}

#[kani::proof]
#[kani::unwind(6)]
pub fn u32_roundtrip() {
    let x: u32 = kani::any();
    let mut buf = Vec::new();
    x.encode(&mut buf);
    assert!(buf.len() == 4 && buf[..] == x.to_be_bytes());
    let (y, off) = u32::decode(&buf, 0).unwrap();
    assert!(y == x && off == 4);
    kani::cover!(true);
}

// ---- U64ED agrees with u64 (block tables write keys as u64 and delete / read them as U64ED) ------------------
#[kani::proof]
#[kani::unwind(10)]
fn u64ed_matches_u64() {
    let x: u64 = kani::any();
    let e1 = U64ED::from(x).encode_vec();
    let e2 = x.encode_vec();
    assert!(e1 == e2);
    let (d, off) = U64ED::decode(&e2, 0).unwrap();
    let back: u64 = d.into();
    assert!(back == x && off == 8);
    kani::cover!(true);
}

// ---- U128ED: the (block << 64 | index) key: round trip and order ------------------------------------------------
#[kani::proof]
#[kani::unwind(18)]
pub fn u128ed_roundtrip() {
    let x: u128 = kani::any();
    let v: U128ED = x.into();
    let e = v.encode_vec();
    assert!(e.len() == 16);
    assert!(e[..] == x.to_be_bytes());
    let (d, off) = U128ED::decode(&e, 0).unwrap();
    assert!(d == v && off == 16);
    kani::cover!(true);
}

#[kani::proof]
#[kani::unwind(18)]
pub fn u128ed_order() {
    let a: u128 = kani::any();
    let b: u128 = kani::any();
    let ea = U128ED::from(a).encode_vec();
    let eb = U128ED::from(b).encode_vec();
    assert!(lex_lt(&ea, &eb) == (a < b));
    kani::cover!(true);
}

#[kani::proof]
#[kani::unwind(18)]
pub fn nidx_key_order() {
    // (block, index) order == order of the composite key == order of its encoding
    let b1: u64 = kani::any();
    let i1: u64 = kani::any();
    let b2: u64 = kani::any();
    let i2: u64 = kani::any();
    let k1 = ((b1 as u128) << 64) | i1 as u128;
    let k2 = ((b2 as u128) << 64) | i2 as u128;
    let e1 = U128ED::from(k1).encode_vec();
    let e2 = U128ED::from(k2).encode_vec();
    assert!(lex_lt(&e1, &e2) == ((b1, i1) < (b2, i2)));
    kani::cover!(true);
}

// ---- Option tag byte, tuple concatenation ---------------------------------------------------------------------------
#[kani::proof]
#[kani::unwind(12)]
pub fn option_u64_roundtrip() {
    let x: Option<u64> = kani::any();
    let e = x.encode_vec();
    match x {
        Some(_) => { assert!(e.len() == 9 && e[0] == 1); }
        None => { assert!(e.len() == 1 && e[0] == 0); }
    }
    let (d, off) = <Option<u64>>::decode(&e, 0).unwrap();
    assert!(d == x && off == e.len());
    kani::cover!(true);
}

#[kani::proof]
#[kani::unwind(12)]
pub fn tuple_u64_u32_roundtrip() {
    let x: (u64, u32) = (kani::any(), kani::any());
    let e = x.encode_vec();
    assert!(e.len() == 12);
    let (d, off) = <(u64, u32)>::decode(&e, 0).unwrap();
    assert!(d == x && off == 12);
    kani::cover!(true);
}

// ---- the fixed-width leaf codecs of the records (C14, rule N37): round trip inside a larger buffer, exact consumption ----
// (complete: the value ranges over every bit pattern, every loop is bounded by the constant width, unwinding assertions on)
#[kani::proof]
#[kani::unwind(10)]
pub fn u8ed_roundtrip() {
    let x: u8 = kani::any();
    let v: U8ED = x.into();
    let mut buf = vec![0xAAu8];
    v.encode(&mut buf);
    assert!(buf.len() == 9);          // one 64-bit limb, big endian
    buf.push(0x55);
    let (d, off) = U8ED::decode(&buf, 1).unwrap();
    assert!(d == v && off == 9);
    kani::cover!(true);
}

#[kani::proof]
#[kani::unwind(34)]
pub fn u256ed_roundtrip() {
    let limbs: [u64; 4] = kani::any();
    let v = U256ED::new(alloy::primitives::Uint::<256, 4>::from_limbs(limbs));
    let mut buf = vec![0xAAu8];
    v.encode(&mut buf);
    assert!(buf.len() == 33);
    buf.push(0x55);
    let (d, off) = U256ED::decode(&buf, 1).unwrap();
    assert!(d == v && off == 33);
    kani::cover!(true);
}

#[kani::proof]
#[kani::unwind(66)]
pub fn u512ed_roundtrip() {
    let limbs: [u64; 8] = kani::any();
    let v = U512ED::new(alloy::primitives::Uint::<512, 8>::from_limbs(limbs));
    let mut buf = vec![0xAAu8];
    v.encode(&mut buf);
    assert!(buf.len() == 65);
    buf.push(0x55);
    let (d, off) = U512ED::decode(&buf, 1).unwrap();
    assert!(d == v && off == 65);
    kani::cover!(true);
}

#[kani::proof]
#[kani::unwind(34)]
pub fn b256ed_roundtrip() {
    let bytes: [u8; 32] = kani::any();
    let v: B256ED = bytes.into();
    let mut buf = vec![0xAAu8];
    v.encode(&mut buf);
    assert!(buf.len() == 33 && buf[1..33] == bytes);
    buf.push(0x55);
    let (d, off) = B256ED::decode(&buf, 1).unwrap();
    assert!(d == v && off == 33);
    kani::cover!(true);
}

#[kani::proof]
#[kani::unwind(22)]
pub fn addressed_roundtrip() {
    let bytes: [u8; 20] = kani::any();
    let v: AddressED = bytes.into();
    let mut buf = vec![0xAAu8];
    v.encode(&mut buf);
    assert!(buf.len() == 21 && buf[1..21] == bytes);
    buf.push(0x55);
    let (d, off) = AddressED::decode(&buf, 1).unwrap();
    assert!(d == v && off == 21);
    kani::cover!(true);
}

// C13 / C01 (storage slots): the composite key of the account-memory table lays the 20 address bytes, 12 zero bytes and the
// 32 big-endian bytes of the slot out in DISJOINT positions of its 64-byte encoding - so two different (address, slot) pairs
// never share a key (the injectivity that unit dbfacade assumes as axiom_u512_key_injective) and keys sort by address, then slot.
#[kani::proof]
#[kani::unwind(66)]
pub fn u512_key_layout() {
    let addr: [u8; 20] = kani::any();
    let limbs: [u64; 4] = kani::any();
    let slot = alloy::primitives::Uint::<256, 4>::from_limbs(limbs);
    let key = U512ED::from_addr_u256(addr.into(), slot).unwrap();
    let mut buf: Vec<u8> = Vec::new();
    key.encode(&mut buf);
    assert!(buf.len() == 64);
    assert!(buf[0..20] == addr);
    assert!(buf[20..32] == [0u8; 12]);
    let be: [u8; 32] = slot.to_be_bytes::<32>();
    assert!(buf[32..64] == be);
    kani::cover!(true);
}

// C14: the 256-byte logs bloom (B2048ED = FixedBytesED<256>), the last fixed-width leaf codec of the records
#[kani::proof]
#[kani::unwind(260)]
pub fn b2048ed_roundtrip() {
    let bytes: [u8; 256] = kani::any();
    let v: B2048ED = bytes.into();
    let mut buf = vec![0xAAu8];
    v.encode(&mut buf);
    assert!(buf.len() == 257 && buf[1..257] == bytes);
    buf.push(0x55);
    let (d, off) = B2048ED::decode(&buf, 1).unwrap();
    assert!(d == v && off == 257);
    kani::cover!(true);
}

// C14 / C08: the key of the pending pool is the pair (signer, nonce): its encoding - 20 address bytes followed by the 8
// big-endian nonce bytes - sorts exactly as the pair does (address bytes first, then the nonce), which the range scan
// [(signer, 0), (signer, u64::MAX)) of txpool_contentFrom and the drain of brc20_transact depend on
#[kani::proof]
#[kani::unwind(30)]
pub fn addr_nonce_key_order() {
    let a1: [u8; 20] = kani::any();
    let n1: u64 = kani::any();
    let a2: [u8; 20] = kani::any();
    let n2: u64 = kani::any();
    let k1: (AddressED, U64ED) = (a1.into(), n1.into());
    let k2: (AddressED, U64ED) = (a2.into(), n2.into());
    let e1 = k1.encode_vec();
    let e2 = k2.encode_vec();
    assert!(e1.len() == 28 && e2.len() == 28);
    assert!(lex_lt(&e1, &e2) == ((a1, n1) < (a2, n2)));
    kani::cover!(true);
}
