// overwritten by `./check <id> --replay <file>` with the concrete-playback test Kani printed for a failed harness
