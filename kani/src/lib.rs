//! Kani harnesses over the REAL codec sources of /repo (included by path, compiled as they are).
#![allow(dead_code, unused_imports)]

pub mod db {
    pub mod types {
        #[path = "/repo/src/db/types/encode_decode.rs"]
        mod encode_decode;
        pub use encode_decode::*;

        #[path = "/repo/src/db/types/uint_ed.rs"]
        mod uint_ed;
        pub use uint_ed::*;

        #[path = "/repo/src/db/types/b256_ed.rs"]
        mod b256_ed;
        pub use b256_ed::*;

        #[path = "/repo/src/db/types/address_ed.rs"]
        mod address_ed;
        pub use address_ed::*;
    }
}

// the one item of crate::global the codec files refer to (address_ed.rs); same value as global/config.rs
pub mod global {
    use alloy::primitives::Address;
    pub static INVALID_ADDRESS: std::sync::LazyLock<Address> = std::sync::LazyLock::new(|| {
        "0x000000000000000000000000000000000000dead".parse().expect("Failed to parse invalid address")
    });
}

#[cfg(any(kani, test))]
mod harnesses;

#[cfg(test)]
mod playback;
