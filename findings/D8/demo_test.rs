// appended to the tests module of src/db/brc20_prog_database.rs; fails (panic inside reorg) on the pinned tree, passes with the fix
    #[test]
    fn verif_reorg_depth_uses_highest_block_ever() {
        let path = TempDir::new().unwrap().keep();
        let mut db = Brc20ProgDatabase::new(&path).unwrap();
        let addr: Address = [7u8; 20].into();
        let info = |n: u64| AccountInfo { balance: U256::from(n), nonce: n, code_hash: [1u8; 32].into(), code: None };
        let hash = |n: u64| -> B256 { let mut b = [0u8; 32]; b[24..].copy_from_slice(&(n + 1).to_be_bytes()); b.into() };
        // finalise blocks 1..=100; the account changes while building blocks 80, 88 and 100
        for n in 1..=100u64 {
            if n == 80 || n == 88 || n == 100 {
                db.set_account_info(addr, info(n)).unwrap();
            }
            db.set_block_hash(n, hash(n)).unwrap();
        }
        db.commit_changes().unwrap();
        // roll back 5 blocks and build block 96 again (different hash)
        db.reorg(95).unwrap();
        db.set_block_hash(96, [0xee; 32].into()).unwrap();
        db.commit_changes().unwrap();
        // 86 is 14 blocks below the highest block ever finalised (100): must be refused, not crash, not wrong
        let r = std::panic::catch_unwind(std::panic::AssertUnwindSafe(|| db.reorg(86)));
        match r {
            Err(_) => panic!("reorg(86) panicked instead of being refused"),
            Ok(Ok(())) => {
                // accepted: then the account must read as of block 86, i.e. the value written at 80
                assert_eq!(db.get_account_info(addr).unwrap().unwrap().nonce, 80u64.into());
            }
            Ok(Err(_)) => {}
        }
    }
