// D10 demonstration (tests module of src/db/cached_database/block_cached_database.rs): fails on the tree before the fix, passes with it
    // D10 demonstration: the process dies in the middle of a reorg, between the two writes of one key whose history
    // becomes old by the rollback; after reopening, the same reorg must still restore the value as of the target block
    #[test]
    fn test_crash_in_reorg_between_history_and_value_is_recovered_by_the_same_reorg() {
        type TestDb =
            BlockCachedDatabase<AddressED, AccountInfoED, BlockHistoryCacheData<AccountInfoED>>;
        fn account(i: u64) -> AccountInfoED {
            AccountInfo { balance: U256::from(100 + i), nonce: i, code_hash: [1; 32].into(), code: None }.into()
        }
        let path = TempDir::new().unwrap();
        let addr: AddressED = "0x1234567890123456789012345678901234567890".parse::<Address>().unwrap().into();

        let mut db = TestDb::new(path.path(), "test_db").unwrap();
        // value a written in block 5, value b written in block 20; both committed (current height 25)
        db.set(5, &addr, account(1)).unwrap();
        db.commit(6).unwrap();
        db.set(20, &addr, account(2)).unwrap();
        db.commit(21).unwrap();
        db.commit(26).unwrap();
        db.db.flush().unwrap();
        db.cache_db.flush().unwrap();
        assert_eq!(db.latest(&addr).unwrap(), Some(account(2)));

        // reorg to block 19 (6 blocks below the height): the history shrinks to {5: a}, which is old with respect to 19.
        // The process dies at the write to the value store.
        let opts = Options::default();
        let read_only = DB::open_for_read_only(&opts, path.path().join("test_db"), false).unwrap();
        drop(std::mem::replace(&mut db.db, read_only));
        assert!(db.reorg(19).is_err());
        drop(db);

        // reopen and run the same reorg again: block 19 was fully committed before the crash
        let mut db = TestDb::new(path.path(), "test_db").unwrap();
        db.reorg(19).unwrap();
        assert_eq!(db.latest(&addr).unwrap(), Some(account(1)), "value as of block 19");
    }

