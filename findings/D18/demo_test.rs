// D18 demonstration (tests module of src/engine/engine.rs): fails on the tree before the fix, passes with it
    // D18 demonstration: a signed transaction is parked while block 3 is being built (nothing else is in that block); the
    // Bitcoin block is orphaned and the indexer reorgs to block 2, the current height: the pool must be that of block 2
    #[test]
    fn test_reorg_to_the_current_height_drops_what_the_open_block_parked() {
        let temp_dir = TempDir::new().unwrap();
        let engine = BRC20ProgEngine::new(Brc20ProgDatabase::new(temp_dir.path()).unwrap());
        CONFIG.write_fn_unchecked(|config| {
            config.chain_id = 0x4252433230;
        });
        engine.mine_blocks(3, 1622547800).unwrap(); // blocks 0..=2
        // signed transaction with nonce 9 of an account whose nonce is 0 (the one test_decode_raw_tx uses): it is parked
        let raw_tx = hex::decode("f875098504a817c800825208943535353535353535353535353535353535353535880de0b6b3a764000084deadbeef8584a4866483a028ef61340bd939bc2195fe537567866003e1a15d3c71ff63e1590620aa636276a067cbe9d8997f761aecb703304b3800ccf555c9f3dc64214b297fb1966a3b6d83").unwrap();
        let receipts = engine.add_raw_tx_to_block(1622547900, raw_tx, 0, 3, B256::from_slice([3; 32].as_ref()), "i1".to_string(), 1000, [1u8; 32].into()).unwrap();
        assert!(receipts.is_empty());
        assert_eq!(engine.get_all_pending_transactions().unwrap().len(), 1);

        engine.reorg(2).unwrap();

        assert_eq!(engine.get_latest_block_height().unwrap(), 2);
        assert_eq!(engine.get_all_pending_transactions().unwrap().len(), 0, "the transaction was parked by block 3, which never happened");
    }
