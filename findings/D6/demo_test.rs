// appended to the tests module of src/db/brc20_prog_database.rs; fails on the pinned tree, passes with the fix
    #[test]
    fn verif_trace_of_orphaned_tx_is_gone_after_reorg() {
        let path = TempDir::new().unwrap().keep();
        let mut db = Brc20ProgDatabase::new(&path).unwrap();
        let mk_trace = || TraceED {
            tx_type: "call".to_string(),
            from: [0; 20].into(),
            to: Some([1; 20].into()),
            calls: vec![],
            gas: U256::from(21000).into(),
            gas_used: U256::from(21000).into(),
            input: vec![0x60, 0x00].into(),
            output: vec![0x00].into(),
            value: U256::from(0).into(),
            error: None,
            revert_reason: None,
        };
        // blocks 1..=3 are finalised; the trace belongs to a transaction of block 3
        db.set_block_hash(1, [1u8; 32].into()).unwrap();
        db.set_block_hash(2, [2u8; 32].into()).unwrap();
        let orphan: B256 = [0xaa; 32].into();
        db.set_tx_trace(orphan, mk_trace()).unwrap();
        db.set_block_hash(3, [3u8; 32].into()).unwrap();
        db.commit_changes().unwrap();
        assert!(db.get_tx_trace(orphan).unwrap().is_some());
        // roll back to block 2: block 3 and everything recorded while building it never happened
        db.reorg(2).unwrap();
        assert_eq!(db.get_latest_block_height().unwrap(), 2);
        assert!(
            db.get_tx_trace(orphan).unwrap().is_none(),
            "trace of a transaction of the orphaned block 3 is still served after reorg(2)"
        );
    }
