// D9 demonstration (tests module of src/engine/engine.rs): fails on the tree before the fix, passes with it
    // D9 demonstration: genesis at height 0 on an empty database, then a reorg back to block 0
    #[test]
    fn test_reorg_to_genesis_keeps_genesis_state() {
        let temp_dir = TempDir::new().unwrap();
        let db = Brc20ProgDatabase::new(temp_dir.path()).unwrap();
        let engine = BRC20ProgEngine::new(db);
        let _ = engine.initialise(B256::from_slice([1; 32].as_ref()), 1622547800, 0);
        let before = engine
            .get_transaction_receipt_by_inscription_id("BRC20_CONTROLLER_INIT".to_string())
            .unwrap();
        assert!(before.is_some());
        let controller = before.clone().unwrap().contract_address.unwrap().address;
        assert!(engine.get_contract_bytecode(controller).unwrap().is_some());
        let nonce_before = engine.get_transaction_count(*INDEXER_ADDRESS, 0).unwrap();

        engine.mine_blocks(2, 1622547900).unwrap();
        engine.reorg(0).unwrap();

        // the state as of block 0 must still be there
        assert_eq!(engine.get_latest_block_height().unwrap(), 0);
        assert_eq!(
            engine.get_transaction_receipt_by_inscription_id("BRC20_CONTROLLER_INIT".to_string()).unwrap(),
            before,
            "receipt of the genesis deployment by inscription id"
        );
        assert!(engine.get_contract_bytecode(controller).unwrap().is_some(), "controller code");
        assert_eq!(engine.get_transaction_count(*INDEXER_ADDRESS, 0).unwrap(), nonce_before, "indexer nonce");
    }

