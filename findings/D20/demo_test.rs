// D20 demonstration (C09): add to the tests module of src/engine/precompiles/bip322_verify_precompile.rs.
// On the tree before the fix this panics inside the bip322 crate (verify.rs:212, `witness.to_vec()[0]` on an empty witness);
// the release profile aborts on panic, and under the engine the panic happens while the database is moved out of its slot.
    #[test]
    fn test_verify_p2tr_with_empty_witness_is_refused_without_panic() {
        // a taproot pkscript (OP_1 <32-byte x-only key>) and a witness with ZERO elements (the single byte 0x00)
        let pkscript = Bytes::from(
            hex::decode("512050929b74c1a04954b78b4b6035e97a5e078a5a0f28ec96d547bfee9ace803ac0").unwrap(),
        );
        let message = Bytes::from("Hello World".as_bytes());
        let bytes = verifyCall::new((pkscript, message, Bytes::from(vec![0u8]))).abi_encode();

        let result = bip322_verify_precompile(&PrecompileCall {
            bytes: Bytes::from_iter(bytes.iter()),
            gas_limit: 1000000,
            block_height: U256::ZERO,
            current_op_return_tx_id: [0u8; 32].into(),
            btc_tx_hexes_data: HashMap::new(),
        });

        // refused like any other signature that does not verify
        assert!(!result.is_ok());
    }
