// D13 demonstration (tests module of src/engine/engine.rs): FAILS on the current tree (open finding: the obvious repair
// - validate_next_tx before parking, attempted_fix.diff - breaks the existing test tests/transact.rs::test_transact_out_of_order,
// which parks two transactions with tx_idx 2 while the block holds 1 transaction)
    // D13 demonstration (known finding, C05): a brc20_transact that violates the block protocol is accepted when the signed
    // transaction is ahead of its account - it is parked without any of the checks every other transaction gets
    #[test]
    fn test_transact_with_a_future_nonce_is_not_checked_against_the_block_protocol() {
        let temp_dir = TempDir::new().unwrap();
        let engine = BRC20ProgEngine::new(Brc20ProgDatabase::new(temp_dir.path()).unwrap());
        CONFIG.write_fn_unchecked(|config| {
            config.chain_id = 0x4252433230;
        });
        engine.mine_blocks(3, 1622547800).unwrap(); // blocks 0..=2 exist, nothing is under construction
        // signed transaction with nonce 9 of an account whose nonce is 0 (the one test_decode_raw_tx uses)
        let raw_tx = hex::decode("f875098504a817c800825208943535353535353535353535353535353535353535880de0b6b3a764000084deadbeef8584a4866483a028ef61340bd939bc2195fe537567866003e1a15d3c71ff63e1590620aa636276a067cbe9d8997f761aecb703304b3800ccf555c9f3dc64214b297fb1966a3b6d83").unwrap();

        // (1) tx_idx 7 while the block under construction holds 0 transactions
        let r1 = engine.add_raw_tx_to_block(1622547900, raw_tx.clone(), 7, 3, B256::from_slice([3; 32].as_ref()), "i1".to_string(), 1000, [1u8; 32].into());
        // (2) for block 1, which exists already
        let r2 = engine.add_raw_tx_to_block(1622547900, raw_tx.clone(), 0, 1, B256::ZERO, "i2".to_string(), 1000, [1u8; 32].into());
        // any other transaction is refused with these parameters
        let other = engine.add_tx_to_block(1622547900, &load_brc20_deploy_tx(), 7, 3, B256::from_slice([3; 32].as_ref()), "i3".to_string(), 1000, [1u8; 32].into());
        assert!(other.is_err());
        let other = engine.add_tx_to_block(1622547900, &load_brc20_deploy_tx(), 0, 1, B256::ZERO, "i4".to_string(), 1000, [1u8; 32].into());
        assert!(other.is_err());

        assert!(r1.is_err(), "tx_idx 7 with 0 transactions in the block: accepted, {:?}", r1.map(|v| v.len()));
        assert!(r2.is_err(), "block 1 exists already: accepted, {:?}", r2.map(|v| v.len()));
    }
