// D16 demonstration (tests module of src/engine/engine.rs): fails on the tree before the fix (D12's fix alone), passes with it

    // D16 demonstration: the indexer account has already sent a transaction (a deposit before brc20_initialise): the controller
    // can no longer land on its well-known address, so the initialise is refused - and must leave the instance as it was
    #[test]
    fn test_refused_initialise_after_a_deposit_changes_nothing() {
        use crate::brc20_controller::load_brc20_mint_tx;
        let temp_dir = TempDir::new().unwrap();
        let engine = BRC20ProgEngine::new(Brc20ProgDatabase::new(temp_dir.path()).unwrap());
        let mint = load_brc20_mint_tx(vec![0x6f, 0x72, 0x64, 0x69].into(), [9u8; 20].into(), U256::from(5));
        engine.add_tx_to_block(1622547800, &mint, 0, 0, B256::from_slice([1; 32].as_ref()), "deposit".to_string(), 1000, [0u8; 32].into()).unwrap();
        engine.finalise_block(1622547800, 0, B256::from_slice([1; 32].as_ref()), 1).unwrap();
        let before = (
            engine.get_latest_block_height().unwrap(),
            engine.last_block_info.read().waiting_tx_count,
            engine.get_transaction_count(*INDEXER_ADDRESS, 0).unwrap(),
        );
        let e = engine
            .initialise(B256::from_slice([2; 32].as_ref()), 1622547900, 1)
            .expect_err("the controller cannot be deployed at its address any more");
        assert!(!e.to_string().contains("Bitcoin RPC"), "{}", e);
        let after = (
            engine.get_latest_block_height().unwrap(),
            engine.last_block_info.read().waiting_tx_count,
            engine.get_transaction_count(*INDEXER_ADDRESS, 0).unwrap(),
        );
        assert_eq!(after, before, "refused with `{}` but the instance changed", e);
    }
