// appended to tests/transact.rs; fails on the pinned tree (brc20_transact returns 'tx_idx is different from waiting tx count in block' after executing nonce 0), passes with the fix

// verif: a parked transaction that has just expired is dropped; the call that executes its predecessor still succeeds
#[tokio::test]
async fn verif_expired_parked_tx_does_not_break_the_drain() -> Result<(), Box<dyn Error>> {
    let (server, client) = spawn_test_server(Default::default()).await;
    let timestamp = 42;
    let block_hash = [0u8; 32].into();

    let chain_id = client.eth_chain_id().await.unwrap();
    let chain_id_number = u64::from_str_radix(chain_id.trim_start_matches("0x"), 16)?;

    let signer = PrivateKeySigner::random();
    let address = signer.address();
    let wallet = EthereumWallet::new(signer);
    let deploy_data = load_file_as_string("brc20_prog_helper_deploy_tx_data")?;

    let mut raw = Vec::new();
    for nonce in 0..3u64 {
        let tx_builder: TransactionRequest = TxLegacy::default().into();
        let tx_builder = tx_builder
            .with_chain_id(chain_id_number)
            .with_nonce(nonce)
            .with_gas_price(0)
            .with_gas_limit(0)
            .with_to(Address::ZERO)
            .with_value(U256::ZERO)
            .with_input(Bytes::from_str(&deploy_data).unwrap());
        let signed_tx = tx_builder.build(&wallet).await.unwrap().into_signed();
        let mut rlp_encoded = Vec::new();
        signed_tx.network_encode(&mut rlp_encoded);
        raw.push(rlp_encoded);
    }

    // block p: nonce 1 is parked
    let r = client
        .brc20_transact(RawBytes::new(hex::encode(&raw[1])).into(), None, timestamp, block_hash, 0, "i1".to_string(), (raw[1].len() as u64).into(), [1; 32].into())
        .await?;
    assert!(r.is_empty());
    client.brc20_finalise_block(timestamp, [0u8; 32].into(), 0).await?;
    // block p+1: nonce 2 is parked
    let r = client
        .brc20_transact(RawBytes::new(hex::encode(&raw[2])).into(), None, timestamp, block_hash, 0, "i2".to_string(), (raw[2].len() as u64).into(), [2; 32].into())
        .await?;
    assert!(r.is_empty());
    client.brc20_finalise_block(timestamp, [0u8; 32].into(), 0).await?;
    // blocks p+2 .. p+9
    for _ in 0..8 {
        client.brc20_finalise_block(timestamp, [0u8; 32].into(), 0).await?;
    }
    let txpool = client.txpool_content().await?;
    assert!(txpool.get("pending").unwrap().get(&address.into()).unwrap().get(&1).is_some());
    assert!(txpool.get("pending").unwrap().get(&address.into()).unwrap().get(&2).is_some());

    // block p+10: nonce 0 arrives. Nonce 1 waited exactly 10 blocks: it is dropped. The call must succeed and return
    // exactly the receipts of the transactions it appended to the block.
    let r = client
        .brc20_transact(RawBytes::new(hex::encode(&raw[0])).into(), None, timestamp, block_hash, 0, "i0".to_string(), (raw[0].len() as u64).into(), [3; 32].into())
        .await;
    assert!(r.is_ok(), "brc20_transact failed after executing part of its work: {:?}", r.err());
    let receipts = r.unwrap();
    assert_eq!(receipts.len(), 1);
    client.brc20_finalise_block(timestamp, [0u8; 32].into(), receipts.len() as u64).await?;
    // nonce 1 was dropped, so nonce 2 can never have executed: the account nonce is 1
    assert_eq!(client.eth_get_transaction_count(address.into(), "latest".to_string()).await?, "0x1");

    server.stop()?;
    Ok(())
}
