// appended to the tests module of src/engine/engine.rs; panics (debug) / 2^64-1 iterations (release) on the pinned tree, passes with the fix
    #[test]
    fn verif_mine_zero_blocks_on_empty_db() {
        let temp_dir = TempDir::new().unwrap();
        let db = Brc20ProgDatabase::new(temp_dir.path()).unwrap();
        let engine = BRC20ProgEngine::new(db);
        // brc20_mine(0, ts) on a fresh database: must neither panic nor loop 2^64 times
        let r = std::panic::catch_unwind(std::panic::AssertUnwindSafe(|| engine.mine_blocks(0, 1622547800)));
        assert!(r.is_ok(), "mine_blocks(0) panicked (release builds wrap to 2^64-1 blocks instead)");
        assert!(r.unwrap().is_ok());
        assert!(engine.get_block_by_number(1, false).unwrap().is_none());
    }
