// D12 demonstration (tests module of src/engine/engine.rs): both tests fail on the tree before the fix (instance changed by a refused brc20_initialise), pass with it
    // D12 demonstration: a brc20_initialise that is refused must leave the instance as it was
    fn observable(engine: &BRC20ProgEngine) -> (u64, u64, u64, bool) {
        (
            engine.get_latest_block_height().unwrap(),
            engine.last_block_info.read().waiting_tx_count,
            engine.get_transaction_count(*INDEXER_ADDRESS, 0).unwrap_or(u64::MAX),
            engine.require_no_waiting_txes().is_ok(),
        )
    }

    #[test]
    fn test_refused_initialise_above_the_next_height_changes_nothing() {
        // empty database, genesis height 5: block 4 does not exist, the call is refused ("Parent block is missing")
        let temp_dir = TempDir::new().unwrap();
        let engine = BRC20ProgEngine::new(Brc20ProgDatabase::new(temp_dir.path()).unwrap());
        let before = observable(&engine);
        let result = engine.initialise(B256::from_slice([1; 32].as_ref()), 1622547800, 5);
        if let Err(e) = &result {
            // (a Bitcoin node that cannot be reached is reported after a successful genesis: not this case)
            assert!(!e.to_string().contains("Bitcoin RPC"), "{}", e);
            assert_eq!(observable(&engine), before, "refused with `{}` but the instance changed", e);
            // and the calls that follow behave as if the refused one had never been made
            engine.mine_blocks(1, 1622547800).unwrap();
        }
    }

    #[test]
    fn test_refused_second_initialise_with_other_parameters_changes_nothing() {
        let temp_dir = TempDir::new().unwrap();
        let engine = BRC20ProgEngine::new(Brc20ProgDatabase::new(temp_dir.path()).unwrap());
        let _ = engine.initialise(B256::from_slice([1; 32].as_ref()), 1622547800, 0);
        assert_eq!(engine.get_latest_block_height().unwrap(), 0);
        let before = observable(&engine);
        // a second initialise with other genesis parameters (the next height, another hash) "will fail" (README)
        let result = engine.initialise(B256::from_slice([2; 32].as_ref()), 1622547900, 1);
        let e = result.expect_err("a second initialise with other genesis parameters must be refused");
        assert!(!e.to_string().contains("Bitcoin RPC"), "{}", e);
        assert_eq!(observable(&engine), before, "refused with `{}` but the instance changed", e);
        engine.mine_blocks(1, 1622547900).unwrap();
    }
