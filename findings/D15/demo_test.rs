// D15 demonstration (tests module of src/db/brc20_prog_database.rs): fails on the tree before the fix (the account created in block 1 survives the recovery reorg to block 0), passes with it
    // D15 demonstration: a reorg is issued while finalised blocks are still uncommitted, and the process dies in the middle of it;
    // afterwards a reorg to the last fully committed height must restore the state as of that height
    #[test]
    fn test_crash_in_reorg_with_uncommitted_blocks_in_memory() {
        use crate::engine::BRC20ProgEngine;

        fn finalise(db: &mut Brc20ProgDatabase, n: u64) {
            let hash: B256 = [n as u8 + 1; 32].into();
            let block = db.generate_block(hash, n, 1622547800 + n, 0, 0).unwrap();
            db.set_block(n, block.clone()).unwrap();
            db.set_raw_block(n, db.generate_raw_block(block).unwrap()).unwrap();
            db.set_block_hash(n, hash).unwrap();
        }

        let path = TempDir::new().unwrap().keep();
        let address: Address = [7u8; 20].into();
        let account_info = AccountInfo { balance: U256::from(100), nonce: 4, code_hash: [2u8; 32].into(), code: None };
        {
            let mut db = Brc20ProgDatabase::new(&path).unwrap();
            finalise(&mut db, 0);
            db.commit_changes().unwrap(); // block 0 is fully committed: the account does not exist
            db.set_account_info(address, account_info.clone()).unwrap(); // block 1 creates the account
            finalise(&mut db, 1);
            finalise(&mut db, 2); // blocks 1 and 2 are finalised, not committed
            // brc20_reorg(1); the process dies after the versioned tables, at the step that rolls the block records back
            db.db_block_number_to_block = None;
            let died = std::panic::catch_unwind(std::panic::AssertUnwindSafe(|| db.reorg(1)));
            assert!(died.is_err());
        }
        // restart; recover by a reorg to the last fully committed height
        let engine = BRC20ProgEngine::new(Brc20ProgDatabase::new(&path).unwrap());
        engine.reorg(0).unwrap();
        assert_eq!(engine.get_latest_block_height().unwrap(), 0);
        assert_eq!(engine.get_transaction_count(address, 0).unwrap(), 0, "the account was created in block 1");
    }
