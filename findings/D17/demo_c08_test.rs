// D17 demonstration, C08 part (tests/transact.rs): FAILS on the current tree (open finding)
// D17 demonstration (known finding, C08): a signed transaction that the EVM refuses at validation is appended to the block
// with a failed receipt while the signer's nonce stays where it was, so a second transaction with the same nonce gets on
// chain as well: one nonce, two transactions
#[tokio::test]
async fn test_one_nonce_gets_on_chain_twice() -> Result<(), Box<dyn Error>> {
    let (_server, client) = spawn_test_server(Default::default()).await;
    let timestamp = 42;
    let block_hash = [0u8; 32].into();
    let chain_id = client.eth_chain_id().await.unwrap();
    let chain_id_number = u64::from_str_radix(chain_id.trim_start_matches("0x"), 16)?;
    let wallet = EthereumWallet::new(PrivateKeySigner::random());

    let mut raw = Vec::new();
    for to in [[1u8; 20], [2u8; 20]] {
        let tx_builder: TransactionRequest = TxLegacy::default().into();
        let tx_builder = tx_builder
            .with_chain_id(chain_id_number)
            .with_nonce(0)
            .with_gas_price(0)
            .with_gas_limit(0)
            .with_to(Address::from(to))
            .with_value(U256::ZERO)
            .with_input(Bytes::from(vec![1u8, 2, 3]));
        let signed_tx = tx_builder.build(&wallet).await.unwrap().into_signed();
        let mut rlp_encoded = Vec::new();
        signed_tx.network_encode(&mut rlp_encoded);
        raw.push(rlp_encoded);
    }

    // first transaction with nonce 0: reported inscription length 1 -> allowance 12000 gas, below the intrinsic 21000
    let first = client
        .brc20_transact(RawBytes::new(hex::encode(&raw[0])).into(), None, timestamp, block_hash, 0, "i0".to_string(), 1u64.into(), [1; 32].into())
        .await?;
    assert_eq!(first.len(), 1);
    assert!(first[0].status.is_zero());
    // second, different transaction with nonce 0 and a sufficient allowance
    let len = raw[1].len() as u64;
    let second = client
        .brc20_transact(RawBytes::new(hex::encode(&raw[1])).into(), None, timestamp, block_hash, 1, "i1".to_string(), len.into(), [1; 32].into())
        .await?;
    // C08: for each signer the transactions that end up on chain have consecutive nonces, each nonce at most once
    let on_chain_with_nonce_0 = first.len() + second.len();
    assert_eq!(on_chain_with_nonce_0, 1, "two transactions of one signer are on chain with nonce 0");
    Ok(())
}
