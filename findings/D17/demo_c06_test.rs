// D17 demonstration, C06 part (tests module of src/engine/engine.rs): FAILS on the current tree (open finding)
    // D17 demonstration (known finding, C06): two identical inscription transactions that the EVM refuses at validation
    // (allowance below the intrinsic gas) are both appended to the block, with ONE transaction hash: the account nonce
    // that the hash is derived from does not advance
    #[test]
    fn test_two_refused_identical_transactions_share_one_hash() {
        let temp_dir = TempDir::new().unwrap();
        let engine = BRC20ProgEngine::new(Brc20ProgDatabase::new(temp_dir.path()).unwrap());
        let from: Address = [7u8; 20].into();
        let tx = TxInfo::from_inscription(from, TxKind::Call([8u8; 20].into()), vec![1u8].into());
        let hash = B256::from_slice([1; 32].as_ref());
        // inscription length 1: allowance 12000 gas, below the 21000 every transaction costs
        let r0 = engine.add_tx_to_block(1622547800, &tx, 0, 0, hash, "i0".to_string(), 1, [0u8; 32].into()).unwrap();
        let r1 = engine.add_tx_to_block(1622547800, &tx, 1, 0, hash, "i1".to_string(), 1, [0u8; 32].into()).unwrap();
        engine.finalise_block(1622547800, 0, hash, 2).unwrap();
        assert_eq!(engine.get_block_transaction_count_by_number(0).unwrap(), 2);
        // C06: every receipt returned to the indexer is the one later served by hash and by inscription id, and the
        // (block, index) lookup points at a transaction that says the same index
        assert_eq!(engine.get_transaction_receipt_by_inscription_id("i0".to_string()).unwrap(), Some(r0.clone()), "receipt of i0 by inscription id");
        assert_eq!(engine.get_transaction_receipt(r0.transaction_hash.bytes).unwrap(), Some(r0.clone()), "receipt of the first transaction by hash");
        assert_ne!(r0.transaction_hash, r1.transaction_hash, "two transactions of one block, one hash");
    }
