    // D21 demonstration (goes into the tests module of src/engine/engine.rs): eth_getBlockByHash asks for the engine's read lock
    // while it already holds it; once a writer queues up between the two acquisitions nobody makes progress any more.
    #[test]
    fn test_block_by_hash_does_not_wedge_the_engine_lock() {
        use std::sync::atomic::{AtomicBool, AtomicU64, Ordering};
        use std::time::{Duration, Instant};

        let temp_dir = TempDir::new().unwrap();
        let db = Brc20ProgDatabase::new(temp_dir.path()).unwrap();
        let engine = Arc::new(BRC20ProgEngine::new(db));
        let genesis_hash = B256::from_slice([1; 32].as_ref());
        let _ = engine.initialise(genesis_hash, 1622547800, 0);
        assert!(engine.get_block_by_hash(genesis_hash, false).unwrap().is_some());

        let stop = Arc::new(AtomicBool::new(false));
        let reads = Arc::new(AtomicU64::new(0));
        let writes = Arc::new(AtomicU64::new(0));
        let mut handles = Vec::new();
        for _ in 0..2 {
            let (engine, stop, reads) = (engine.clone(), stop.clone(), reads.clone());
            handles.push(std::thread::spawn(move || {
                while !stop.load(Ordering::Relaxed) {
                    engine.get_block_by_hash(genesis_hash, false).unwrap();
                    reads.fetch_add(1, Ordering::Relaxed);
                }
            }));
        }
        {
            let (engine, stop, writes) = (engine.clone(), stop.clone(), writes.clone());
            handles.push(std::thread::spawn(move || {
                while !stop.load(Ordering::Relaxed) {
                    // what any request that takes the write lock does first (eth_call, a deployment, finalise, ...)
                    engine.db.write_fn(|_| Ok(())).unwrap();
                    writes.fetch_add(1, Ordering::Relaxed);
                }
            }));
        }

        // run for three seconds; the lock is wedged if nothing moves for a whole second
        let start = Instant::now();
        let mut wedged = false;
        while start.elapsed() < Duration::from_secs(3) {
            let before = (reads.load(Ordering::Relaxed), writes.load(Ordering::Relaxed));
            std::thread::sleep(Duration::from_secs(1));
            let after = (reads.load(Ordering::Relaxed), writes.load(Ordering::Relaxed));
            if before == after {
                wedged = true;
                break;
            }
        }
        stop.store(true, Ordering::Relaxed);
        assert!(
            !wedged,
            "no request made progress for a second after {} reads and {} writes: the engine lock is wedged",
            reads.load(Ordering::Relaxed),
            writes.load(Ordering::Relaxed)
        );
        for handle in handles {
            handle.join().unwrap();
        }
    }
