// appended to the tests module of src/api/types.rs; panics (index out of bounds) on the pinned tree, passes with the fix
    #[test]
    fn verif_empty_payload_is_rejected_not_a_crash() {
        // "" and "=" (and "==") base64-decode to zero bytes: there is no method byte to look at
        for s in ["", "=", "=="] {
            let r = std::panic::catch_unwind(|| decode_bytes_from_inscription_data(s));
            assert!(r.is_ok(), "payload {:?} panicked", s);
            assert_eq!(r.unwrap(), None);
        }
        assert_eq!(Base64Bytes::new("".to_string()).value(), None);
    }
