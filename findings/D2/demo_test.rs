// appended to the tests module of src/engine/precompiles/get_locked_pkscript_precompile.rs; panics in bytes::Bytes::slice on the pinned tree
    #[test]
    fn verif_short_pkscript_is_an_error_not_a_crash() {
        // a contract may hand any bytes to the helper: 0 and 1 byte pkscripts must fail cleanly
        for pk in [vec![], vec![0x51u8]] {
            let bytes = getLockedPkscriptCall::new((pk.clone().into(), U256::from(6u8))).abi_encode();
            let r = std::panic::catch_unwind(|| {
                get_locked_pkscript_precompile(&PrecompileCall {
                    bytes: bytes.into(),
                    gas_limit: 100000,
                    block_height: U256::ZERO,
                    current_op_return_tx_id: [0u8; 32].into(),
                    btc_tx_hexes_data: HashMap::new(),
                })
            });
            assert!(r.is_ok(), "pkscript of {} bytes panicked", pk.len());
            assert_eq!(r.unwrap().result, InstructionResult::PrecompileError);
        }
    }
