// D14 demonstration (tests module of src/db/brc20_prog_database.rs): fails on the tree before the fix (the request panics), passes with it
    // D14 demonstration: the process dies inside a commit, after the block records have reached the disk and before the
    // receipts have; after the restart a debug_getBlockTraceString for that block must answer (a result or an error)
    #[test]
    fn test_trace_string_of_a_block_whose_receipts_did_not_reach_the_disk() {
        use crate::engine::BRC20ProgEngine;

        let path = TempDir::new().unwrap().keep();
        let block_hash: B256 = [1u8; 32].into();
        let output = ExecutionResult::Success {
            reason: SuccessReason::Return,
            gas_used: 10,
            gas_refunded: 0,
            logs: Vec::new(),
            output: Output::Call(vec![11u8; 32].into()),
        };
        {
            let mut db = Brc20ProgDatabase::new(&path).unwrap();
            // block 0 with two transactions, built the way add_tx_to_block / finalise_block build it
            db.set_tx_receipt(block_hash, 0, None, [4u8; 20].into(), Some([5u8; 20].into()), &vec![0u8; 4].into(), [6u8; 32].into(), 0,
                Some(output.clone()), 10, 0, 0, "inscription_id".to_string(), 10000, 0u8, U256::from(0), U256::from(0)).unwrap();
            db.set_tx_receipt(block_hash, 0, None, [4u8; 20].into(), Some([5u8; 20].into()), &vec![1u8; 4].into(), [7u8; 32].into(), 1,
                Some(output.clone()), 20, 1, 0, "inscription_id_2".to_string(), 10000, 0u8, U256::from(0), U256::from(0)).unwrap();
            let block = db.generate_block(block_hash, 0, 1622547800, 20, 0).unwrap();
            db.set_block(0, block.clone()).unwrap();
            db.set_raw_block(0, db.generate_raw_block(block).unwrap()).unwrap();
            db.set_block_hash(0, block_hash).unwrap();
            // the process dies in commit_changes at the first versioned table: the three block-keyed stores are on disk
            db.db_number_and_index_to_tx_hash = None;
            let died = std::panic::catch_unwind(std::panic::AssertUnwindSafe(|| db.commit_changes()));
            assert!(died.is_err());
        }
        // restart; before anybody has had the chance to reorg, an explorer asks for the trace string of block 0
        let engine = BRC20ProgEngine::new(Brc20ProgDatabase::new(&path).unwrap());
        assert_eq!(engine.get_latest_block_height().unwrap(), 0);
        let answered = std::panic::catch_unwind(std::panic::AssertUnwindSafe(|| engine.get_block_trace_string(0).map_err(|e| e.to_string())));
        assert!(answered.is_ok(), "the request panicked (the shipped binary aborts on a panic)");
    }
