// D11 demonstration (tests module of src/db/brc20_prog_database.rs): fails on the tree before the fix (block 4 still served after the repeated reorg), passes with it
    // D11 demonstration: the process dies inside brc20_reorg, right after the table that defines the
    // height has been rolled back and before the block records are; afterwards the same reorg must
    // still bring the database to the state as of the target block
    #[test]
    fn test_crash_in_reorg_between_height_table_and_block_records() {
        use crate::engine::BRC20ProgEngine;

        let path = TempDir::new().unwrap().keep();
        {
            let engine = BRC20ProgEngine::new(Brc20ProgDatabase::new(&path).unwrap());
            engine.mine_blocks(6, 1622547800).unwrap(); // blocks 0..=5
            engine.commit_to_db().unwrap();
            assert_eq!(engine.get_latest_block_height().unwrap(), 5);
            assert!(engine.get_block_by_number(5, false).unwrap().is_some());
        }
        {
            // the process dies at the step of reorg(3) that rolls the block records back: every step
            // before it has reached the disk, this one and the later ones have not run
            let mut db = Brc20ProgDatabase::new(&path).unwrap();
            db.db_block_number_to_block = None;
            let died = std::panic::catch_unwind(std::panic::AssertUnwindSafe(|| db.reorg(3)));
            assert!(died.is_err());
        }
        // restart, and reorg to the same height again (fully committed before the crash, inside the window)
        let engine = BRC20ProgEngine::new(Brc20ProgDatabase::new(&path).unwrap());
        engine.reorg(3).unwrap();
        assert_eq!(engine.get_latest_block_height().unwrap(), 3);
        assert!(engine.get_block_by_number(3, false).unwrap().is_some());
        assert_eq!(engine.get_block_by_number(4, false).unwrap(), None, "block 4 was rolled back");
        assert_eq!(engine.get_block_by_number(5, false).unwrap(), None, "block 5 was rolled back");
        assert_eq!(engine.get_raw_block(5).unwrap(), None, "raw block 5 was rolled back");
    }
