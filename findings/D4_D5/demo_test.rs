// appended to the tests module of src/db/cached_database/block_cached_database.rs
    #[test]
    fn verif_get_range_complete_and_ordered() {
        use crate::db::types::{U128ED, B256ED};
        // repeat with fresh maps: HashMap iteration order is randomised per instance
        for round in 0..20 {
            let path = TempDir::new().unwrap();
            let mut db = BlockCachedDatabase::<U128ED, B256ED, BlockHistoryCacheData<B256ED>>::new(
                path.path(),
                "test_db",
            )
            .unwrap();
            // 40 uncommitted keys: 0..40 ; query [5, 25)
            for i in 0..40u128 {
                let key: U128ED = i.into();
                let value: B256ED = B256::from([i as u8; 32]).into();
                db.set(1, &key, value).unwrap();
            }
            let start: U128ED = 5u128.into();
            let end: U128ED = 25u128.into();
            let got = db.get_range(&start, &end).unwrap();
            let got_keys: Vec<u128> = got.iter().map(|(k, _)| k.uint.to::<u128>()).collect();
            let want: Vec<u128> = (5..25).collect();
            let mut sorted = got_keys.clone();
            sorted.sort();
            assert_eq!(sorted, want, "round {}: range scan incomplete", round);
            assert_eq!(got_keys, want, "round {}: range scan not in key order", round);
        }
    }
