// D19 demonstration (tests module of src/engine/engine.rs): FAILS on the current tree (open finding): the reorg panics
    // D19 demonstration (known finding, C01 / C09): a reorg of the accepted depth 10 panics ("Reorg too deep") when a key was
    // written 10 and 9 blocks below the tip and once more by the block under construction: that last write prunes the
    // history relative to the OPEN block, one block further than the reorg window, which hangs on the highest FINALISED block
    #[test]
    fn test_reorg_of_depth_ten_after_a_write_of_the_open_block() {
        let temp_dir = TempDir::new().unwrap();
        let engine = BRC20ProgEngine::new(Brc20ProgDatabase::new(temp_dir.path()).unwrap());
        CONFIG.write_fn_unchecked(|config| {
            config.chain_id = 0x4252433230;
        });
        // signed transaction with nonce 9 of an account whose nonce is 0 (the one test_decode_raw_tx uses): always parked
        let raw_tx = hex::decode("f875098504a817c800825208943535353535353535353535353535353535353535880de0b6b3a764000084deadbeef8584a4866483a028ef61340bd939bc2195fe537567866003e1a15d3c71ff63e1590620aa636276a067cbe9d8997f761aecb703304b3800ccf555c9f3dc64214b297fb1966a3b6d83").unwrap();
        let park = |block: u64| {
            let r = engine.add_raw_tx_to_block(1622547800 + block, raw_tx.clone(), 0, block, B256::ZERO, format!("i{}", block), 1000, [block as u8; 32].into()).unwrap();
            assert!(r.is_empty());
        };
        engine.mine_blocks(2, 1622547800).unwrap(); // blocks 0, 1
        park(2); // tip - 10
        engine.finalise_block(1622547802, 2, B256::ZERO, 0).unwrap();
        park(3); // tip - 9
        engine.finalise_block(1622547803, 3, B256::ZERO, 0).unwrap();
        engine.mine_blocks(9, 1622547900).unwrap(); // blocks 4..=12: the tip is 12
        assert_eq!(engine.get_latest_block_height().unwrap(), 12);
        park(13); // the block under construction writes the same pool entry once more
        // a reorg to 2 is 10 below the highest finalised block: it must be accepted and restore the state as of block 2
        let result = std::panic::catch_unwind(std::panic::AssertUnwindSafe(|| engine.reorg(2)));
        assert!(result.is_ok(), "the reorg panicked (the shipped binary aborts on a panic)");
        result.unwrap().unwrap();
        assert_eq!(engine.get_latest_block_height().unwrap(), 2);
        assert_eq!(engine.get_all_pending_transactions().unwrap().len(), 1, "the transaction parked by block 2");
    }
