// ---- prelude/u64key.rs : the block-number key encoding as seen by the block tables ----------------
// `be8(x)` is the 8-byte big-endian encoding of x.  Its three laws (length, injectivity, order) are
// PROVED for all 2^64 values by the Kani harnesses of /verif/kani (u64_roundtrip, u64_order,
// u64ed_matches_u64) on the real encode_decode.rs / uint_ed.rs; here they are axioms.
pub uninterp spec fn be8(x: u64) -> Seq<u8>;

pub broadcast axiom fn axiom_be8_len(x: u64)
    ensures (#[trigger] be8(x)).len() == 8;

pub broadcast axiom fn axiom_be8_order(a: u64, b: u64)
    ensures #[trigger] lex_lt(be8(a), be8(b)) == (a < b);

pub broadcast axiom fn axiom_be8_injective(a: u64, b: u64)
    ensures (#[trigger] be8(a) == #[trigger] be8(b)) == (a == b);

