// ---- prelude/ed_types.rs : dependency and codec types as shims (single-file Verus cannot link crates) ----
// Types whose fields the kernel reads keep those fields (same names as the real structs); all others are opaque.
// Conversions / constructors are external_body functions over uninterpreted spec functions.
// Codecs are assumed here (table_types_ok) and proved in unit codec / Kani.

#[verifier::external_body]
#[derive(Clone, Copy, Eq, Hash)]
pub struct Address { _p: () }
impl PartialEq for Address {
    #[verifier::external_body]
    fn eq(&self, other: &Self) -> (r: bool) ensures r == (*self == *other) { unimplemented!() }
}

#[verifier::external_body]
#[derive(Clone, Copy, Eq, Hash)]
pub struct B256 { _p: () }
impl PartialEq for B256 {
    #[verifier::external_body]
    fn eq(&self, other: &Self) -> (r: bool) ensures r == (*self == *other) { unimplemented!() }
}
impl B256 {
    // alloy FixedBytes::is_zero
    pub uninterp spec fn is_zero_spec(&self) -> bool;
    #[verifier::external_body]
    pub fn is_zero(&self) -> (r: bool) ensures r == self.is_zero_spec() { unimplemented!() }
}

#[verifier::external_body]
#[derive(Clone, Copy, Eq, Hash)]
pub struct U256 { _p: () }
impl PartialEq for U256 {
    #[verifier::external_body]
    fn eq(&self, other: &Self) -> (r: bool) ensures r == (*self == *other) { unimplemented!() }
}

#[verifier::external_body]
#[derive(PartialEq, Eq, Hash)]
pub struct Bytes { _p: () }

impl Clone for Bytes {
    #[verifier::external_body]
    fn clone(&self) -> (r: Self) ensures r == *self { unimplemented!() }
}

#[verifier::external_body]
#[derive(PartialEq, Eq, Hash)]
pub struct Bytecode { _p: () }

impl Clone for Bytecode {
    #[verifier::external_body]
    fn clone(&self) -> (r: Self) ensures r == *self { unimplemented!() }
}

// revm::state::AccountInfo: public fields under revm's names
#[derive(PartialEq, Eq, Hash)]
pub struct AccountInfo { pub balance: U256, pub nonce: u64, pub code_hash: B256, pub code: Option<Bytecode> }
impl AccountInfo {
    // revm's Default: nothing is assumed about the default values (every field the kernel stores is assigned afterwards)
    #[verifier::external_body]
    pub fn default() -> (r: AccountInfo) { unimplemented!() }
}

impl Clone for AccountInfo {
    #[verifier::external_body]
    fn clone(&self) -> (r: Self) ensures r == *self { unimplemented!() }
}

#[verifier::external_body]
#[derive(PartialEq, Eq, Hash)]
pub struct ExecutionResult { _p: () }

impl Clone for ExecutionResult {
    #[verifier::external_body]
    fn clone(&self) -> (r: Self) ensures r == *self { unimplemented!() }
}

#[verifier::external_body]
#[derive(PartialEq, Eq, Hash)]
pub struct Log { _p: () }

impl Clone for Log {
    #[verifier::external_body]
    fn clone(&self) -> (r: Self) ensures r == *self { unimplemented!() }
}

#[verifier::external_body]
#[derive(PartialEq, Eq, Hash)]
pub struct U512ED { _p: () }

impl Clone for U512ED {
    #[verifier::external_body]
    fn clone(&self) -> (r: Self) ensures r == *self { unimplemented!() }
}

impl Encode for U512ED {
    uninterp spec fn enc(&self) -> Seq<u8>;
    #[verifier::external_body]
    fn encode(&self, buffer: &mut Vec<u8>) { unimplemented!() }
}

impl Decode for U512ED {
    uninterp spec fn dec(bytes: Seq<u8>, offset: int) -> Option<(Self, int)>;
    uninterp spec fn dec_safe(bytes: Seq<u8>, offset: int) -> bool;
    #[verifier::external_body]
    fn decode(bytes: &[u8], offset: usize) -> (r: Result<(Self, usize), VErr>) { unimplemented!() }
}

// UintED<256, 4> of uint_ed.rs: the field the kernel reads keeps its name
#[derive(PartialEq, Eq, Hash)]
pub struct U256ED { pub uint: U256 }

impl Clone for U256ED {
    #[verifier::external_body]
    fn clone(&self) -> (r: Self) ensures r == *self { unimplemented!() }
}

impl Encode for U256ED {
    uninterp spec fn enc(&self) -> Seq<u8>;
    #[verifier::external_body]
    fn encode(&self, buffer: &mut Vec<u8>) { unimplemented!() }
}

impl Decode for U256ED {
    uninterp spec fn dec(bytes: Seq<u8>, offset: int) -> Option<(Self, int)>;
    uninterp spec fn dec_safe(bytes: Seq<u8>, offset: int) -> bool;
    #[verifier::external_body]
    fn decode(bytes: &[u8], offset: usize) -> (r: Result<(Self, usize), VErr>) { unimplemented!() }
}

#[derive(PartialEq, Eq, Hash)]
pub struct BytecodeED { pub bytecode: Bytecode }

impl Clone for BytecodeED {
    #[verifier::external_body]
    fn clone(&self) -> (r: Self) ensures r == *self { unimplemented!() }
}

impl Encode for BytecodeED {
    uninterp spec fn enc(&self) -> Seq<u8>;
    #[verifier::external_body]
    fn encode(&self, buffer: &mut Vec<u8>) { unimplemented!() }
}

impl Decode for BytecodeED {
    uninterp spec fn dec(bytes: Seq<u8>, offset: int) -> Option<(Self, int)>;
    uninterp spec fn dec_safe(bytes: Seq<u8>, offset: int) -> bool;
    #[verifier::external_body]
    fn decode(bytes: &[u8], offset: usize) -> (r: Result<(Self, usize), VErr>) { unimplemented!() }
}

// account_info_ed.rs: the three stored fields (the struct text itself is compared with the source by unit codec, N37)
#[derive(PartialEq, Eq, Hash)]
pub struct AccountInfoED { pub balance: U256ED, pub nonce: U64ED, pub code_hash: B256ED }

impl Clone for AccountInfoED {
    #[verifier::external_body]
    fn clone(&self) -> (r: Self) ensures r == *self { unimplemented!() }
}

impl Encode for AccountInfoED {
    uninterp spec fn enc(&self) -> Seq<u8>;
    #[verifier::external_body]
    fn encode(&self, buffer: &mut Vec<u8>) { unimplemented!() }
}

impl Decode for AccountInfoED {
    uninterp spec fn dec(bytes: Seq<u8>, offset: int) -> Option<(Self, int)>;
    uninterp spec fn dec_safe(bytes: Seq<u8>, offset: int) -> bool;
    #[verifier::external_body]
    fn decode(bytes: &[u8], offset: usize) -> (r: Result<(Self, usize), VErr>) { unimplemented!() }
}

#[verifier::external_body]
#[derive(PartialEq, Eq, Hash)]
pub struct U128ED { _p: () }

impl Clone for U128ED {
    #[verifier::external_body]
    fn clone(&self) -> (r: Self) ensures r == *self { unimplemented!() }
}

impl Encode for U128ED {
    uninterp spec fn enc(&self) -> Seq<u8>;
    #[verifier::external_body]
    fn encode(&self, buffer: &mut Vec<u8>) { unimplemented!() }
}

impl Decode for U128ED {
    uninterp spec fn dec(bytes: Seq<u8>, offset: int) -> Option<(Self, int)>;
    uninterp spec fn dec_safe(bytes: Seq<u8>, offset: int) -> bool;
    #[verifier::external_body]
    fn decode(bytes: &[u8], offset: usize) -> (r: Result<(Self, usize), VErr>) { unimplemented!() }
}

#[verifier::external_body]
#[derive(PartialEq, Eq, Hash)]
pub struct TraceED { _p: () }

impl Clone for TraceED {
    #[verifier::external_body]
    fn clone(&self) -> (r: Self) ensures r == *self { unimplemented!() }
}

impl Encode for TraceED {
    uninterp spec fn enc(&self) -> Seq<u8>;
    #[verifier::external_body]
    fn encode(&self, buffer: &mut Vec<u8>) { unimplemented!() }
}

impl Decode for TraceED {
    uninterp spec fn dec(bytes: Seq<u8>, offset: int) -> Option<(Self, int)>;
    uninterp spec fn dec_safe(bytes: Seq<u8>, offset: int) -> bool;
    #[verifier::external_body]
    fn decode(bytes: &[u8], offset: usize) -> (r: Result<(Self, usize), VErr>) { unimplemented!() }
}

#[verifier::external_body]
#[derive(PartialEq, Eq, Hash)]
pub struct BlockResponseED { _p: () }

impl Clone for BlockResponseED {
    #[verifier::external_body]
    fn clone(&self) -> (r: Self) ensures r == *self { unimplemented!() }
}

impl Encode for BlockResponseED {
    uninterp spec fn enc(&self) -> Seq<u8>;
    #[verifier::external_body]
    fn encode(&self, buffer: &mut Vec<u8>) { unimplemented!() }
}

impl Decode for BlockResponseED {
    uninterp spec fn dec(bytes: Seq<u8>, offset: int) -> Option<(Self, int)>;
    uninterp spec fn dec_safe(bytes: Seq<u8>, offset: int) -> bool;
    #[verifier::external_body]
    fn decode(bytes: &[u8], offset: usize) -> (r: Result<(Self, usize), VErr>) { unimplemented!() }
}

#[verifier::external_body]
#[derive(PartialEq, Eq, Hash)]
pub struct RawBlock { _p: () }

impl Clone for RawBlock {
    #[verifier::external_body]
    fn clone(&self) -> (r: Self) ensures r == *self { unimplemented!() }
}

impl Encode for RawBlock {
    uninterp spec fn enc(&self) -> Seq<u8>;
    #[verifier::external_body]
    fn encode(&self, buffer: &mut Vec<u8>) { unimplemented!() }
}

impl Decode for RawBlock {
    uninterp spec fn dec(bytes: Seq<u8>, offset: int) -> Option<(Self, int)>;
    uninterp spec fn dec_safe(bytes: Seq<u8>, offset: int) -> bool;
    #[verifier::external_body]
    fn decode(bytes: &[u8], offset: usize) -> (r: Result<(Self, usize), VErr>) { unimplemented!() }
}

#[verifier::external_body]
#[derive(PartialEq, Eq, Hash)]
pub struct Signature { _p: () }

impl Clone for Signature {
    #[verifier::external_body]
    fn clone(&self) -> (r: Self) ensures r == *self { unimplemented!() }
}

impl Encode for Signature {
    uninterp spec fn enc(&self) -> Seq<u8>;
    #[verifier::external_body]
    fn encode(&self, buffer: &mut Vec<u8>) { unimplemented!() }
}

impl Decode for Signature {
    uninterp spec fn dec(bytes: Seq<u8>, offset: int) -> Option<(Self, int)>;
    uninterp spec fn dec_safe(bytes: Seq<u8>, offset: int) -> bool;
    #[verifier::external_body]
    fn decode(bytes: &[u8], offset: usize) -> (r: Result<(Self, usize), VErr>) { unimplemented!() }
}

#[verifier::external_body]
#[derive(PartialEq, Eq, Hash)]
pub struct U8ED { _p: () }

impl Clone for U8ED {
    #[verifier::external_body]
    fn clone(&self) -> (r: Self) ensures r == *self { unimplemented!() }
}

impl Encode for U8ED {
    uninterp spec fn enc(&self) -> Seq<u8>;
    #[verifier::external_body]
    fn encode(&self, buffer: &mut Vec<u8>) { unimplemented!() }
}

impl Decode for U8ED {
    uninterp spec fn dec(bytes: Seq<u8>, offset: int) -> Option<(Self, int)>;
    uninterp spec fn dec_safe(bytes: Seq<u8>, offset: int) -> bool;
    #[verifier::external_body]
    fn decode(bytes: &[u8], offset: usize) -> (r: Result<(Self, usize), VErr>) { unimplemented!() }
}

#[verifier::external_body]
#[derive(Clone, Copy, PartialEq, Eq, Hash)]
pub struct U64ED { _p: () }

impl Encode for U64ED {
    uninterp spec fn enc(&self) -> Seq<u8>;
    #[verifier::external_body]
    fn encode(&self, buffer: &mut Vec<u8>) { unimplemented!() }
}

impl Decode for U64ED {
    uninterp spec fn dec(bytes: Seq<u8>, offset: int) -> Option<(Self, int)>;
    uninterp spec fn dec_safe(bytes: Seq<u8>, offset: int) -> bool;
    #[verifier::external_body]
    fn decode(bytes: &[u8], offset: usize) -> (r: Result<(Self, usize), VErr>) { unimplemented!() }
}

#[derive(Clone, Copy, PartialEq, Eq, Hash)]
pub struct AddressED { pub address: Address }

impl Encode for AddressED {
    uninterp spec fn enc(&self) -> Seq<u8>;
    #[verifier::external_body]
    fn encode(&self, buffer: &mut Vec<u8>) { unimplemented!() }
}

impl Decode for AddressED {
    uninterp spec fn dec(bytes: Seq<u8>, offset: int) -> Option<(Self, int)>;
    uninterp spec fn dec_safe(bytes: Seq<u8>, offset: int) -> bool;
    #[verifier::external_body]
    fn decode(bytes: &[u8], offset: usize) -> (r: Result<(Self, usize), VErr>) { unimplemented!() }
}

#[derive(Clone, Copy, PartialEq, Eq, Hash)]
pub struct B256ED { pub bytes: B256 }

impl Encode for B256ED {
    uninterp spec fn enc(&self) -> Seq<u8>;
    #[verifier::external_body]
    fn encode(&self, buffer: &mut Vec<u8>) { unimplemented!() }
}

impl Decode for B256ED {
    uninterp spec fn dec(bytes: Seq<u8>, offset: int) -> Option<(Self, int)>;
    uninterp spec fn dec_safe(bytes: Seq<u8>, offset: int) -> bool;
    #[verifier::external_body]
    fn decode(bytes: &[u8], offset: usize) -> (r: Result<(Self, usize), VErr>) { unimplemented!() }
}

// LogED / TxReceiptED / TxED: only the fields the kernel reads (get_logs, clear_txpool, set_tx_receipt coherence)
#[derive(PartialEq, Eq)]
pub struct LogED {
    pub address: AddressED,
    pub topics: Vec<B256ED>,
    pub rest: LogRest,
}
#[verifier::external_body]
#[derive(PartialEq, Eq)]
pub struct LogRest { _p: () }
impl Clone for LogED {
    #[verifier::external_body]
    fn clone(&self) -> (r: Self) ensures r == *self { unimplemented!() }
}

#[derive(PartialEq, Eq)]
pub struct TxReceiptED {
    pub logs: Vec<LogED>,
    pub block_hash: B256ED,
    pub block_number: U64ED,
    pub transaction_hash: B256ED,
    pub transaction_index: U64ED,
    pub from: AddressED,
    pub to: Option<AddressED>,
    pub contract_address: Option<AddressED>,
    pub cumulative_gas_used: U64ED,
    pub rest: ReceiptRest,
}
#[verifier::external_body]
#[derive(PartialEq, Eq)]
pub struct ReceiptRest { _p: () }
impl Clone for TxReceiptED {
    #[verifier::external_body]
    fn clone(&self) -> (r: Self) ensures r == *self { unimplemented!() }
}

impl Encode for TxReceiptED {
    uninterp spec fn enc(&self) -> Seq<u8>;
    #[verifier::external_body]
    fn encode(&self, buffer: &mut Vec<u8>) { unimplemented!() }
}

impl Decode for TxReceiptED {
    uninterp spec fn dec(bytes: Seq<u8>, offset: int) -> Option<(Self, int)>;
    uninterp spec fn dec_safe(bytes: Seq<u8>, offset: int) -> bool;
    #[verifier::external_body]
    fn decode(bytes: &[u8], offset: usize) -> (r: Result<(Self, usize), VErr>) { unimplemented!() }
}

#[derive(PartialEq, Eq)]
pub struct TxED {
    pub hash: B256ED,
    pub block_hash: B256ED,
    pub block_number: Option<U64ED>,
    pub transaction_index: Option<U64ED>,
    pub nonce: U64ED,
    pub from: AddressED,
    pub to: Option<AddressED>,
    pub gas: U64ED,
    pub inscription_id: Option<String>,
    pub rest: TxRest,
}
#[verifier::external_body]
#[derive(PartialEq, Eq)]
pub struct TxRest { _p: () }
impl Clone for TxED {
    #[verifier::external_body]
    fn clone(&self) -> (r: Self) ensures r == *self { unimplemented!() }
}

impl Encode for TxED {
    uninterp spec fn enc(&self) -> Seq<u8>;
    #[verifier::external_body]
    fn encode(&self, buffer: &mut Vec<u8>) { unimplemented!() }
}

impl Decode for TxED {
    uninterp spec fn dec(bytes: Seq<u8>, offset: int) -> Option<(Self, int)>;
    uninterp spec fn dec_safe(bytes: Seq<u8>, offset: int) -> bool;
    #[verifier::external_body]
    fn decode(bytes: &[u8], offset: usize) -> (r: Result<(Self, usize), VErr>) { unimplemented!() }
}

impl Encode for String {
    uninterp spec fn enc(&self) -> Seq<u8>;
    #[verifier::external_body]
    fn encode(&self, buffer: &mut Vec<u8>) { unimplemented!() }
}

impl Decode for String {
    uninterp spec fn dec(bytes: Seq<u8>, offset: int) -> Option<(Self, int)>;
    uninterp spec fn dec_safe(bytes: Seq<u8>, offset: int) -> bool;
    #[verifier::external_body]
    fn decode(bytes: &[u8], offset: usize) -> (r: Result<(Self, usize), VErr>) { unimplemented!() }
}

impl<T: Encode, U: Encode> Encode for (T, U) {
    open spec fn enc(&self) -> Seq<u8> { self.0.enc() + self.1.enc() }
    #[verifier::external_body]
    fn encode(&self, buffer: &mut Vec<u8>) { unimplemented!() }
}
impl<T: Decode, U: Decode> Decode for (T, U) {
    uninterp spec fn dec(bytes: Seq<u8>, offset: int) -> Option<(Self, int)>;
    uninterp spec fn dec_safe(bytes: Seq<u8>, offset: int) -> bool;
    #[verifier::external_body]
    fn decode(bytes: &[u8], offset: usize) -> (r: Result<(Self, usize), VErr>) { unimplemented!() }
}

pub open spec fn b256ed_of(b: B256) -> B256ED { B256ED { bytes: b } }
impl From<B256> for B256ED {
    #[verifier::external_body]
    fn from(b: B256) -> (r: B256ED) ensures r == b256ed_of(b) { unimplemented!() }
}

pub open spec fn addressed_of(b: Address) -> AddressED { AddressED { address: b } }
impl From<Address> for AddressED {
    #[verifier::external_body]
    fn from(b: Address) -> (r: AddressED) ensures r == addressed_of(b) { unimplemented!() }
}

pub open spec fn u256ed_of(b: U256) -> U256ED { U256ED { uint: b } }
impl From<U256> for U256ED {
    #[verifier::external_body]
    fn from(b: U256) -> (r: U256ED) ensures r == u256ed_of(b) { unimplemented!() }
}

pub open spec fn bytecodeed_of(b: Bytecode) -> BytecodeED { BytecodeED { bytecode: b } }
impl From<Bytecode> for BytecodeED {
    #[verifier::external_body]
    fn from(b: Bytecode) -> (r: BytecodeED) ensures r == bytecodeed_of(b) { unimplemented!() }
}

// what AccountInfoED::new must build (C13: the row stored for an account is its balance, nonce and code hash); the
// conversions themselves (new / from / into of account_info_ed.rs) are extracted and proved in unit dbfacade
pub open spec fn accountinfoed_of(b: AccountInfo) -> AccountInfoED {
    AccountInfoED { balance: u256ed_of(b.balance), nonce: u64ed_of(b.nonce), code_hash: b256ed_of(b.code_hash) }
}

pub uninterp spec fn u64ed_of(b: u64) -> U64ED;
impl From<u64> for U64ED {
    #[verifier::external_body]
    fn from(b: u64) -> (r: U64ED) ensures r == u64ed_of(b) { unimplemented!() }
}

pub uninterp spec fn u128ed_of(b: u128) -> U128ED;
impl From<u128> for U128ED {
    #[verifier::external_body]
    fn from(b: u128) -> (r: U128ED) ensures r == u128ed_of(b) { unimplemented!() }
}

impl From<B256ED> for B256 {
    #[verifier::external_body]
    fn from(b: B256ED) -> (r: B256) ensures r == b.bytes { unimplemented!() }
}

// U64ED -> u64 (`impl Into<u64> for U64ED` in uint_ed.rs; rule N18 rewrites `.into()` at those sites)
pub uninterp spec fn u64_of(b: U64ED) -> u64;
#[verifier::external_body]
pub fn u64ed_to_u64(b: U64ED) -> (r: u64) ensures r == u64_of(b) { unimplemented!() }
// `x.into()` U64ED -> u64 where rule N18 has not rewritten it (uint_ed.rs implements Into<u64> for U64ED)
impl From<U64ED> for u64 {
    #[verifier::external_body]
    fn from(b: U64ED) -> (r: u64) ensures r == u64_of(b) { unimplemented!() }
}
pub broadcast axiom fn axiom_u64ed_roundtrip(x: u64)
    ensures #[trigger] u64_of(u64ed_of(x)) == x;
pub broadcast axiom fn axiom_u64ed_roundtrip2(x: U64ED)
    ensures #[trigger] u64ed_of(u64_of(x)) == x;

// U512ED::from_addr_u256 (uint_ed.rs): address ++ 12 zero bytes ++ 32-byte big-endian slot; never fails for these widths
pub uninterp spec fn u512_key(a: Address, m: U256) -> U512ED;
impl U512ED {
    #[verifier::external_body]
    pub fn from_addr_u256(address: Address, mem_loc: U256) -> (r: Result<U512ED, VErr>)
        ensures r is Ok ==> r->Ok_0 == u512_key(address, mem_loc),
    { unimplemented!() }
}

impl B256 {
    #[verifier::external_body]
    pub const ZERO: B256 = B256 { _p: () };
}
impl U256 {
    #[verifier::external_body]
    pub const ZERO: U256 = U256 { _p: () };
}
impl Bytecode {
    // revm_bytecode::Bytecode::new(): the empty (STOP) bytecode
    pub uninterp spec fn new_spec() -> Bytecode;
    #[verifier::external_body]
    pub fn new() -> (r: Bytecode) ensures r == Bytecode::new_spec() { unimplemented!() }
}
// `res.unwrap_or(d)` on a Result (std)
#[verifier::external_body]
pub fn result_unwrap_or<T, E>(r: Result<T, E>, d: T) -> (o: T)
    ensures o == (match r { Ok(v) => v, Err(_) => d }),
{ r.unwrap_or(d) }

// serde_either::SingleOrVec (topic filter position: one value or a list of alternatives)
pub enum SingleOrVec<T> {
    Single(T),
    Vec(Vec<T>),
}

// N27: `v.iter().any(|x| P(x))`
#[verifier::external_body]
pub fn vec_any_opt_b256<F: Fn(&Option<B256>) -> bool>(v: &Vec<Option<B256>>, f: F) -> (r: bool)
    requires forall|i: int| 0 <= i < v@.len() ==> call_requires(f, (&v@[i],)),
    ensures
        r ==> exists|i: int| 0 <= i < v@.len() && call_ensures(f, (&#[trigger] v@[i],), true),
        !r ==> forall|i: int| 0 <= i < v@.len() ==> call_ensures(f, (&#[trigger] v@[i],), false),
{ v.iter().any(|x| f(x)) }

// N29: constructors reduced to the arguments that are plain values (what they store is proved in unit codec: every argument
// lands in the field of the same name); the arguments computed from the revm execution output (success flag, logs, gas used)
// and the byte payloads (input data, signature) are dropped.  `first_log_index_of` = the start index handed to LogED::new_vec.
pub uninterp spec fn first_log_index_of(r: TxReceiptED) -> U64ED;
// the gas the receipt records for its own transaction (the `gas_used` argument of TxReceiptED::new; C06: the cumulative figure
// is the running sum of exactly these)
pub uninterp spec fn gas_used_of(r: TxReceiptED) -> u64;
// `output.as_ref().map(|o| o.gas_used()).unwrap_or(d)`: the gas revm reports, d for a transaction it refused before execution
pub uninterp spec fn exec_gas(o: Option<ExecutionResult>) -> Option<u64>;
#[verifier::external_body]
pub fn out_gas_or(o: &Option<ExecutionResult>, d: u64) -> (r: u64)
    ensures r == (match exec_gas(*o) { Some(g) => g, None => d }), (*o is None) == (exec_gas(*o) is None),
{ unimplemented!() }
impl TxReceiptED {
    #[verifier::external_body]
    pub fn new_indexed(block_hash: B256ED, block_number: U64ED, contract_address: Option<AddressED>, from: AddressED, to: Option<AddressED>,
                       transaction_hash: B256ED, transaction_index: U64ED, gas_used: u64, cumulative_gas_used: U64ED, start_log_index: U64ED) -> (r: Result<TxReceiptED, VErr>)
        ensures r is Ok ==> (r->Ok_0).block_hash == block_hash && (r->Ok_0).block_number == block_number
            && (r->Ok_0).transaction_hash == transaction_hash && (r->Ok_0).transaction_index == transaction_index
            && (r->Ok_0).contract_address == contract_address && (r->Ok_0).from == from && (r->Ok_0).to == to
            && (r->Ok_0).cumulative_gas_used == cumulative_gas_used && first_log_index_of(r->Ok_0) == start_log_index
            && gas_used_of(r->Ok_0) == gas_used,
    { unimplemented!() }
}
impl TxED {
    #[verifier::external_body]
    pub fn new_indexed(hash: B256ED, nonce: U64ED, block_hash: B256ED, block_number: U64ED, transaction_index: U64ED, from: AddressED, to: Option<AddressED>, gas: U64ED, inscription_id: String) -> (r: TxED)
        ensures r.hash == hash && r.block_hash == block_hash && r.block_number == Some(block_number) && r.transaction_index == Some(transaction_index)
            && r.nonce == nonce && r.from == from && r.to == to && r.gas == gas && r.inscription_id == Some(inscription_id),
    { unimplemented!() }
}
// `opt.map(AddressED::new)`
pub fn opt_addressed(o: Option<Address>) -> (r: Option<AddressED>)
    ensures r == (match o { Some(a) => Some(addressed_of(a)), None => None::<AddressED> }),
{ match o { Some(a) => Some(a.into()), None => None } }

// alloy U64 (the nonce bounds of the pending-pool range scan)
#[verifier::external_body]
pub struct U64 { _p: () }
impl U64 {
    #[verifier::external_body]
    pub const ZERO: U64 = U64 { _p: () };
    #[verifier::external_body]
    pub const MAX: U64 = U64 { _p: () };
}
impl From<U64> for U64ED {
    #[verifier::external_body]
    fn from(b: U64) -> (r: U64ED) ensures (b == U64::ZERO ==> r == u64ed_of(0)) && (b == U64::MAX ==> r == u64ed_of(u64::MAX)) { unimplemented!() }
}
