// ---- prelude/to_vec.rs : <[T]>::to_vec (not in vstd) ----
pub assume_specification<T: Clone>[<[T]>::to_vec](s: &[T]) -> (r: Vec<T>)
    ensures
        r@.len() == s@.len(),
        forall|i: int| 0 <= i < s@.len() ==> cloned::<T>(s@[i], #[trigger] r@[i]),
        (forall|a: T, b: T| #[trigger] cloned::<T>(a, b) ==> a == b) ==> r@ == s@;

