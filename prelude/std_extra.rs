// ---- prelude/std_extra.rs : assumed specifications of std functions vstd does not cover -----------
//@include prelude/to_vec.rs

// N15: `m.get_mut(k)` on a std HashMap (vstd has no specification for get_mut)
#[verifier::external_body]
pub fn hashmap_get_mut<'a, K: Eq + Hash, V>(m: &'a mut HashMap<K, V>, k: &K) -> (r: Option<&'a mut V>)
    ensures
        vstd::std_specs::hash::obeys_key_model::<K>() && vstd::std_specs::hash::builds_valid_hashers::<std::hash::RandomState>() ==> match r {
            Some(v) => old(m)@.contains_key(*k) && *v == old(m)@[*k] && final(m)@ == old(m)@.insert(*k, *final(v)),
            None => !old(m)@.contains_key(*k) && final(m)@ == old(m)@,
        },
{
    m.get_mut(k)
}

// N4 (hash map): `m.iter().filter(|(_, c)| P(c)).map(|(key, _)| key.clone()).collect()`.
// Deliberately weak: the result is some vector of keys (nothing about which, nor their order).
#[verifier::external_body]
pub fn hashmap_keys_where<K: Eq + Hash + Clone, C, F: Fn(&C) -> bool>(m: &HashMap<K, C>, f: F) -> (r: Vec<K>)
    requires
        forall|k: K| m@.contains_key(k) ==> call_requires(f, (&m@[k],)),
{
    m.iter().filter(|kv| f(kv.1)).map(|kv| kv.0.clone()).collect()
}

// N17: `std::cmp::max(a, b)` on Option<u64> (None < Some(_), Some ordered by value)
#[verifier::external_body]
pub fn opt_u64_max(a: Option<u64>, b: Option<u64>) -> (r: Option<u64>)
    ensures
        a is None ==> r == b,
        b is None ==> r == a,
        a is Some && b is Some ==> r == Some(if a->0 >= b->0 { a->0 } else { b->0 }),
{ std::cmp::max(a, b) }

// N20: decimal text of block numbers in the configuration store
pub uninterp spec fn parse_u64_or0(s: Seq<char>) -> u64;

// `x.parse::<u64>().unwrap_or(0)`
#[verifier::external_body]
pub fn string_parse_u64_or0(x: &String) -> (r: u64)
    ensures r == parse_u64_or0(x@),
{ x.parse::<u64>().unwrap_or(0) }

// `n.to_string()` for u64: parsing the decimal text gives the number back (assumed: core::fmt / core::str)
#[verifier::external_body]
pub fn u64_to_string(n: u64) -> (r: String)
    ensures parse_u64_or0(r@) == n,
{ n.to_string() }

// Option::map_or (not in vstd): default when None, f(x) when Some(x)
pub assume_specification<T, U, F: FnOnce(T) -> U + std::marker::Destruct>[Option::<T>::map_or](o: Option<T>, default: U, f: F) -> (r: U)
    where U: std::marker::Destruct
    requires o is Some ==> call_requires(f, (o->0,)),
    ensures o is None ==> r == default, o is Some ==> call_ensures(f, (o->0,), r);

// N9: `map.into_iter().collect()` / N28: `for key in map.keys()` -- a HashMap as SOME vector of its entries / keys:
// every entry exactly once, in an unspecified order (deliberately weak: nothing order-dependent can be proved from it)
#[verifier::external_body]
pub fn hashmap_into_vec<K: Eq + Hash, V>(m: HashMap<K, V>) -> (r: Vec<(K, V)>)
    ensures
        vstd::std_specs::hash::obeys_key_model::<K>() && vstd::std_specs::hash::builds_valid_hashers::<std::hash::RandomState>() ==> {
            &&& forall|i: int| 0 <= i < r@.len() ==> m@.contains_key((#[trigger] r@[i]).0) && m@[r@[i].0] == r@[i].1
            &&& forall|i: int, j: int| 0 <= i < j < r@.len() ==> (#[trigger] r@[i]).0 != (#[trigger] r@[j]).0
            &&& forall|k: K| m@.contains_key(k) ==> exists|i: int| 0 <= i < r@.len() && (#[trigger] r@[i]).0 == k
        },
{ m.into_iter().collect() }

#[verifier::external_body]
pub fn hashmap_keys_vec<'a, K: Eq + Hash, V>(m: &'a HashMap<K, V>) -> (r: Vec<&'a K>)
    ensures
        vstd::std_specs::hash::obeys_key_model::<K>() && vstd::std_specs::hash::builds_valid_hashers::<std::hash::RandomState>() ==> {
            &&& forall|i: int| 0 <= i < r@.len() ==> m@.contains_key(*(#[trigger] r@[i]))
            &&& forall|k: K| m@.contains_key(k) ==> exists|i: int| 0 <= i < r@.len() && *(#[trigger] r@[i]) == k
        },
{ m.keys().collect() }

// N28 (with hashmap_keys_vec): the value of a key that is known to be present (`for (key, value) in &map`)
#[verifier::external_body]
pub fn hashmap_get_present<'a, K: Eq + Hash, V>(m: &'a HashMap<K, V>, k: &K) -> (r: &'a V)
    requires m@.contains_key(*k),
    ensures *r == m@[*k],
{ m.get(k).unwrap() }

// N9: `for key in hash_set` -- a HashSet as SOME vector of its elements, each exactly once
#[verifier::external_body]
pub fn hashset_into_vec<K: Eq + Hash>(s: HashSet<K>) -> (r: Vec<K>)
    ensures
        vstd::std_specs::hash::obeys_key_model::<K>() && vstd::std_specs::hash::builds_valid_hashers::<std::hash::RandomState>() ==> {
            &&& forall|i: int| 0 <= i < r@.len() ==> s@.contains(#[trigger] r@[i])
            &&& forall|i: int, j: int| 0 <= i < j < r@.len() ==> #[trigger] r@[i] != #[trigger] r@[j]
            &&& forall|k: K| s@.contains(k) ==> exists|i: int| 0 <= i < r@.len() && #[trigger] r@[i] == k
        },
{ s.into_iter().collect() }
