// ---- prelude/u64key.rs : the block-number key encoding as seen by the block tables ----------------
// `be8(x)` is the 8-byte big-endian encoding of x.  Its three laws (length, injectivity, order) are
// PROVED for all 2^64 values by the Kani harnesses of /verif/kani (u64_roundtrip, u64_order,
// u64ed_matches_u64) on the real encode_decode.rs / uint_ed.rs; here they are axioms.
pub uninterp spec fn be8(x: u64) -> Seq<u8>;

pub broadcast axiom fn axiom_be8_len(x: u64)
    ensures (#[trigger] be8(x)).len() == 8;

pub broadcast axiom fn axiom_be8_order(a: u64, b: u64)
    ensures #[trigger] lex_lt(be8(a), be8(b)) == (a < b);

pub broadcast axiom fn axiom_be8_injective(a: u64, b: u64)
    ensures (#[trigger] be8(a) == #[trigger] be8(b)) == (a == b);

// u64 as a key:  `key.encode_vec()`  (impl Encode for u64 in encode_decode.rs)
#[verifier::external_body]
pub fn u64_encode_vec(x: &u64) -> (r: Vec<u8>)
    ensures r@ == be8(*x),
{ unimplemented!() }

// U64ED (UintED<64,1>): `U64ED::from(x).encode_vec()` and `U64ED::decode_vec(..)?.into()`
#[verifier::external_body]
pub struct U64ED { _p: () }

impl U64ED {
    pub uninterp spec fn val(&self) -> u64;

    #[verifier::external_body]
    pub fn from(x: u64) -> (r: U64ED)
        ensures r.val() == x,
    { unimplemented!() }

    #[verifier::external_body]
    pub fn encode_vec(&self) -> (r: Vec<u8>)
        ensures r@ == be8(self.val()),
    { unimplemented!() }

    // decode_vec of a stored key: Ok(v) with be8(v) == bytes when bytes is such an encoding, otherwise Err
    #[verifier::external_body]
    pub fn decode_vec(bytes: &Vec<u8>) -> (r: Result<U64ED, VErr>)
        requires bytes@.len() >= 8,
        ensures r is Ok ==> be8((r->Ok_0).val()) == bytes@.subrange(0, 8), r is Ok && bytes@.len() == 8 ==> be8((r->Ok_0).val()) == bytes@,
    { unimplemented!() }

    #[verifier::external_body]
    pub fn into(self) -> (r: u64)
        ensures r == self.val(),
    { unimplemented!() }
}
