// ---- prelude/db.rs : RocksDB as an ordered byte map (assumed dependency contract; N11) ----------
// `put`/`delete` take `&self` in rocksdb; the shim declares them `&mut self` with a ghost byte-map
// view, so the extracted text only type-checks if every real call site already holds `&mut` on the owner.
// Each write is atomic and durable in program order; an Err leaves the store unchanged.
#[verifier::external_body]
pub struct DB { _p: () }

impl View for DB {
    type V = Map<Seq<u8>, Seq<u8>>;
    uninterp spec fn view(&self) -> Map<Seq<u8>, Seq<u8>>;
}

impl DB {
    #[verifier::external_body]
    pub fn get(&self, key: &Vec<u8>) -> (r: Result<Option<Vec<u8>>, VErr>)
        ensures
            r is Ok ==> match r->Ok_0 {
                Some(v) => self@.contains_key(key@) && v@ == self@[key@],
                None => !self@.contains_key(key@),
            },
    { unimplemented!() }

    #[verifier::external_body]
    pub fn put(&mut self, key: &Vec<u8>, value: &Vec<u8>) -> (r: Result<(), VErr>)
        ensures
            r is Ok ==> final(self)@ == old(self)@.insert(key@, value@),
            r is Err ==> final(self)@ == old(self)@,
    { unimplemented!() }

    #[verifier::external_body]
    pub fn delete(&mut self, key: &Vec<u8>) -> (r: Result<(), VErr>)
        ensures
            r is Ok ==> final(self)@ == old(self)@.remove(key@),
            r is Err ==> final(self)@ == old(self)@,
    { unimplemented!() }

    #[verifier::external_body]
    pub fn flush(&self) -> (r: Result<(), VErr>)
    { unimplemented!() }
}

// lexicographic order on byte strings (RocksDB's default comparator; also `[u8]: Ord`)
pub open spec fn lex_lt(a: Seq<u8>, b: Seq<u8>) -> bool
    decreases a.len(),
{
    if b.len() == 0 { false }
    else if a.len() == 0 { true }
    else if a[0] != b[0] { a[0] < b[0] }
    else { lex_lt(a.drop_first(), b.drop_first()) }
}

pub open spec fn lex_le(a: Seq<u8>, b: Seq<u8>) -> bool { a == b || lex_lt(a, b) }

// N16: `db.full_iterator(IteratorMode::End).take(1).last()` -- the entry with the greatest key.
// Iterator-level I/O errors are not modelled (assumption: a RocksDB iterator does not fail mid-scan).
#[verifier::external_body]
pub fn db_last_entry(db: &DB) -> (r: Option<Result<(Vec<u8>, Vec<u8>), VErr>>)
    ensures
        db@.dom().len() == 0 ==> r is None,
        db@.dom().len() > 0 ==> r is Some && r->0 is Ok
            && db@.contains_key((r->0->Ok_0).0@) && db@[(r->0->Ok_0).0@] == (r->0->Ok_0).1@
            && forall|kb: Seq<u8>| db@.contains_key(kb) ==> lex_le(kb, (r->0->Ok_0).0@),
{ unimplemented!() }

// N16b: `db.iterator(IteratorMode::From(&start, Direction::Forward))` / `db.full_iterator(IteratorMode::Start)` as the
// vector of their items: every entry with key >= start, ascending in the byte order.  Iterator-level I/O errors are not
// modelled (the `?` on each item is dropped by the same rule).
pub open spec fn db_scan(dbv: Map<Seq<u8>, Seq<u8>>, start: Seq<u8>, items: Seq<(Vec<u8>, Vec<u8>)>) -> bool {
    &&& forall|i: int| 0 <= i < items.len() ==> dbv.contains_key((#[trigger] items[i]).0@) && dbv[items[i].0@] == items[i].1@ && lex_le(start, items[i].0@)
    &&& forall|i: int, j: int| 0 <= i < j < items.len() ==> lex_lt((#[trigger] items[i]).0@, (#[trigger] items[j]).0@)
    &&& forall|kb: Seq<u8>| dbv.contains_key(kb) && lex_le(start, kb) ==> exists|i: int| 0 <= i < items.len() && (#[trigger] items[i]).0@ == kb
}

#[verifier::external_body]
pub fn db_iter_from(db: &DB, start: &Vec<u8>) -> (r: Vec<(Vec<u8>, Vec<u8>)>)
    ensures db_scan(db@, start@, r@),
{ unimplemented!() }

#[verifier::external_body]
pub fn db_iter_all(db: &DB) -> (r: Vec<(Vec<u8>, Vec<u8>)>)
    ensures db_scan(db@, Seq::<u8>::empty(), r@),
{ unimplemented!() }

// N12: `*a >= *b`, `*a < *b` on byte strings (`[u8]: PartialOrd` is the lexicographic order)
#[verifier::external_body]
pub fn bytes_ge(a: &Vec<u8>, b: &Vec<u8>) -> (r: bool) ensures r == !lex_lt(a@, b@) { **a >= **b }
#[verifier::external_body]
pub fn bytes_lt(a: &Vec<u8>, b: &Vec<u8>) -> (r: bool) ensures r == lex_lt(a@, b@) { **a < **b }
// `>` / `<=` on byte strings (Vec<u8> compares lexicographically): the other two comparisons an edit may reach for
#[verifier::external_body]
pub fn bytes_gt(a: &Vec<u8>, b: &Vec<u8>) -> (r: bool) ensures r == lex_lt(b@, a@) { **a > **b }
#[verifier::external_body]
pub fn bytes_le(a: &Vec<u8>, b: &Vec<u8>) -> (r: bool) ensures r == !lex_lt(b@, a@) { **a <= **b }

pub proof fn lemma_lex_lt_trans(a: Seq<u8>, b: Seq<u8>, c: Seq<u8>)
    requires lex_lt(a, b), lex_lt(b, c),
    ensures lex_lt(a, c),
    decreases a.len(),
{
    if a.len() > 0 && b.len() > 0 && c.len() > 0 && a[0] == b[0] && b[0] == c[0] {
        lemma_lex_lt_trans(a.drop_first(), b.drop_first(), c.drop_first());
    }
}

pub proof fn lemma_lex_lt_irrefl(a: Seq<u8>)
    ensures !lex_lt(a, a),
    decreases a.len(),
{
    if a.len() > 0 { lemma_lex_lt_irrefl(a.drop_first()); }
}

pub proof fn lemma_lex_empty_least(a: Seq<u8>)
    ensures lex_le(Seq::<u8>::empty(), a),
{
    if a.len() == 0 { assert(a =~= Seq::<u8>::empty()); }
}

pub proof fn lemma_lex_lt_asym(a: Seq<u8>, b: Seq<u8>)
    requires lex_lt(a, b),
    ensures !lex_lt(b, a), a != b,
    decreases a.len(),
{
    if a.len() > 0 && b.len() > 0 && a[0] == b[0] {
        lemma_lex_lt_asym(a.drop_first(), b.drop_first());
    }
}

pub proof fn lemma_lex_total(a: Seq<u8>, b: Seq<u8>)
    ensures lex_lt(a, b) || a == b || lex_lt(b, a),
    decreases a.len(),
{
    if a.len() == 0 {
        if b.len() == 0 { assert(a =~= b); }
    } else if b.len() == 0 {
    } else if a[0] == b[0] {
        lemma_lex_total(a.drop_first(), b.drop_first());
        if a.drop_first() == b.drop_first() {
            assert(a =~= seq![a[0]] + a.drop_first());
            assert(b =~= seq![b[0]] + b.drop_first());
        }
    }
}
