// ---- prelude/db.rs : RocksDB as an ordered byte map (assumed dependency contract; N11) ----------
// `put`/`delete` take `&self` in rocksdb; the shim declares them `&mut self` with a ghost byte-map
// view, so the extracted text only type-checks if every real call site already holds `&mut` on the owner.
// Each write is atomic and durable in program order; an Err leaves the store unchanged.
#[verifier::external_body]
pub struct DB { _p: () }

impl View for DB {
    type V = Map<Seq<u8>, Seq<u8>>;
    uninterp spec fn view(&self) -> Map<Seq<u8>, Seq<u8>>;
}

impl DB {
    #[verifier::external_body]
    pub fn get(&self, key: &Vec<u8>) -> (r: Result<Option<Vec<u8>>, VErr>)
        ensures
            r is Ok ==> match r->Ok_0 {
                Some(v) => self@.contains_key(key@) && v@ == self@[key@],
                None => !self@.contains_key(key@),
            },
    { unimplemented!() }

    #[verifier::external_body]
    pub fn put(&mut self, key: &Vec<u8>, value: &Vec<u8>) -> (r: Result<(), VErr>)
        ensures
            r is Ok ==> final(self)@ == old(self)@.insert(key@, value@),
            r is Err ==> final(self)@ == old(self)@,
    { unimplemented!() }

    #[verifier::external_body]
    pub fn delete(&mut self, key: &Vec<u8>) -> (r: Result<(), VErr>)
        ensures
            r is Ok ==> final(self)@ == old(self)@.remove(key@),
            r is Err ==> final(self)@ == old(self)@,
    { unimplemented!() }

    #[verifier::external_body]
    pub fn flush(&self) -> (r: Result<(), VErr>)
    { unimplemented!() }
}

// lexicographic order on byte strings (RocksDB's default comparator; also `[u8]: Ord`)
pub open spec fn lex_lt(a: Seq<u8>, b: Seq<u8>) -> bool
    decreases a.len(),
{
    if b.len() == 0 { false }
    else if a.len() == 0 { true }
    else if a[0] != b[0] { a[0] < b[0] }
    else { lex_lt(a.drop_first(), b.drop_first()) }
}

pub open spec fn lex_le(a: Seq<u8>, b: Seq<u8>) -> bool { a == b || lex_lt(a, b) }

// N16: `db.full_iterator(IteratorMode::End).take(1).last()` -- the entry with the greatest key.
// Iterator-level I/O errors are not modelled (assumption: a RocksDB iterator does not fail mid-scan).
#[verifier::external_body]
pub fn db_last_entry(db: &DB) -> (r: Option<Result<(Vec<u8>, Vec<u8>), VErr>>)
    ensures
        db@.dom().len() == 0 ==> r is None,
        db@.dom().len() > 0 ==> r is Some && r->0 is Ok
            && db@.contains_key((r->0->Ok_0).0@) && db@[(r->0->Ok_0).0@] == (r->0->Ok_0).1@
            && forall|kb: Seq<u8>| db@.contains_key(kb) ==> lex_le(kb, (r->0->Ok_0).0@),
{ unimplemented!() }
