// ---- prelude/common.rs : trusted text shared by all units -------------------------------------
// N1: the error payload of `Box<dyn Error>` is dropped; Ok/Err discrimination is kept exactly.
#[verifier::external_body]
#[verifier::reject_recursive_types_in_ground_variants]
pub struct VErr { _p: () }

#[verifier::external_body]
pub fn verr() -> (e: VErr) { VErr { _p: () } }
// `res.expect(..)` / `res.unwrap()` on a Result need the error type to be Debug (never executed: the unit is only verified)
#[verifier::external]
impl std::fmt::Debug for VErr {
    fn fmt(&self, f: &mut std::fmt::Formatter<'_>) -> std::fmt::Result { Ok(()) }
}

// Bitcoin block heights are far below 2^63: every `height + constant` of the kernel stays inside u64.
// Stated as an explicit precondition wherever it is used (listed under assumptions).
#[allow(non_snake_case)]
pub open spec fn HEIGHT_LIMIT() -> u64 { 0x8000_0000_0000_0000u64 }

// `std::cmp::min(a, b)` / `std::cmp::max(a, b)` (core): the smaller / larger one by the type's own order
pub assume_specification<T: Ord>[core::cmp::min::<T>](a: T, b: T) -> (r: T)
    ensures r == a || r == b,
        <T as vstd::std_specs::cmp::OrdSpec>::cmp_spec(&a, &b) is Greater ==> r == b,
        !(<T as vstd::std_specs::cmp::OrdSpec>::cmp_spec(&a, &b) is Greater) ==> r == a;
