// ---- prelude/common.rs : trusted text shared by all units -------------------------------------
// N1: the error payload of `Box<dyn Error>` is dropped; Ok/Err discrimination is kept exactly.
#[verifier::external_body]
#[verifier::reject_recursive_types_in_ground_variants]
pub struct VErr { _p: () }

#[verifier::external_body]
pub fn verr() -> (e: VErr) { VErr { _p: () } }
