// ---- prelude/common.rs : trusted text shared by all units -------------------------------------
// N1: the error payload of `Box<dyn Error>` is dropped; Ok/Err discrimination is kept exactly.
#[verifier::external_body]
#[verifier::reject_recursive_types_in_ground_variants]
pub struct VErr { _p: () }

#[verifier::external_body]
pub fn verr() -> (e: VErr) { VErr { _p: () } }
// `res.expect(..)` / `res.unwrap()` on a Result need the error type to be Debug (never executed: the unit is only verified)
#[verifier::external]
impl std::fmt::Debug for VErr {
    fn fmt(&self, f: &mut std::fmt::Formatter<'_>) -> std::fmt::Result { Ok(()) }
}

// Bitcoin block heights are far below 2^63: every `height + constant` of the kernel stays inside u64.
// Stated as an explicit precondition wherever it is used (listed under assumptions).
#[allow(non_snake_case)]
pub open spec fn HEIGHT_LIMIT() -> u64 { 0x8000_0000_0000_0000u64 }

// `std::cmp::min(a, b)` / `std::cmp::max(a, b)` (core): the smaller / larger one by the type's own order
pub assume_specification<T: Ord>[core::cmp::min::<T>](a: T, b: T) -> (r: T)
    ensures r == a || r == b,
        <T as vstd::std_specs::cmp::OrdSpec>::cmp_spec(&a, &b) is Greater ==> r == b,
        !(<T as vstd::std_specs::cmp::OrdSpec>::cmp_spec(&a, &b) is Greater) ==> r == a;

// ---- std methods that realistic edits reach for and vstd does not specify (shared by every unit) ----------------------------
// Option::filter: the predicate's own contract decides which way it goes
pub assume_specification<T, P: FnOnce(&T) -> bool> [std::option::Option::<T>::filter] (o: std::option::Option<T>, p: P) -> (r: std::option::Option<T>)
    requires o is Some ==> call_requires(p, (&o->0,)),
    ensures o is None ==> r is None,
        o is Some ==> ((r == o && call_ensures(p, (&o->0,), true)) || (r is None && call_ensures(p, (&o->0,), false)));
// Option::is_some_and: false for None, otherwise what the closure answers
pub assume_specification<T, F: FnOnce(T) -> bool>[Option::<T>::is_some_and](a: Option<T>, f: F) -> (r: bool)
    requires a is Some ==> f.requires((a->0,)),
    ensures a is None ==> !r, a is Some ==> f.ensures((a->0,), r);
// Result::or / Result::and
pub assume_specification<T, E, F>[Result::<T, E>::or](a: Result<T, E>, b: Result<T, F>) -> (r: Result<T, F>)
    ensures a is Ok ==> r is Ok && r->Ok_0 == a->Ok_0, a is Err ==> r == b;
pub assume_specification<T, E, U>[Result::<T, E>::and](a: Result<T, E>, b: Result<U, E>) -> (r: Result<U, E>)
    ensures a is Ok ==> r == b, a is Err ==> r is Err;
// Result::unwrap_or_default: the Ok value; nothing is said about the default
pub assume_specification<T: Default, E>[Result::<T, E>::unwrap_or_default](r: Result<T, E>) -> (o: T)
    ensures r is Ok ==> o == r->Ok_0;
// str::to_lowercase / to_uppercase / trim: uninterpreted functions of the text (nothing is provable equal to the text itself)
pub uninterp spec fn str_lower(s: Seq<char>) -> Seq<char>;
pub uninterp spec fn str_upper(s: Seq<char>) -> Seq<char>;
pub uninterp spec fn str_trimmed(s: Seq<char>) -> Seq<char>;
pub assume_specification[str::to_lowercase](s: &str) -> (r: String) ensures r@ == str_lower(s@);
pub assume_specification[str::to_uppercase](s: &str) -> (r: String) ensures r@ == str_upper(s@);
pub assume_specification[str::trim](s: &str) -> (r: &str) ensures r@ == str_trimmed(s@);
// Option::or / Option::and
pub assume_specification<T>[Option::<T>::or](a: Option<T>, b: Option<T>) -> (r: Option<T>)
    ensures a is Some ==> r == a, a is None ==> r == b;
pub assume_specification<T, U>[Option::<T>::and](a: Option<T>, b: Option<U>) -> (r: Option<U>)
    ensures a is Some ==> r == b, a is None ==> r is None;

// Iterator::find_map over a slice iterator: a Some result is one the closure produced for some element (nothing is promised
// about which one, or about None) - enough for an edit that reaches for it to be judged by the caller's contract
pub assume_specification<'a, T, B, F: FnMut(&'a T) -> Option<B>>[ <core::slice::Iter<'a, T> as Iterator>::find_map ](it: &mut core::slice::Iter<'a, T>, f: F) -> (r: Option<B>)
    where core::slice::Iter<'a, T>: Sized,
    requires forall|x: &'a T| call_requires(f, (x,)),
    ensures r is Some ==> exists|x: &'a T| call_ensures(f, (x,), r),
;
