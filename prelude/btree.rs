// ---- prelude/btree.rs : ordered-map vocabulary and trusted std compositions (N4, N7, N8) ---------
pub open spec fn is_max(s: Set<u64>, k: u64) -> bool {
    s.contains(k) && forall|j: u64| s.contains(j) ==> j <= k
}

pub open spec fn is_min(s: Set<u64>, k: u64) -> bool {
    s.contains(k) && forall|j: u64| s.contains(j) ==> k <= j
}

pub open spec fn strictly_ascending(s: Seq<u64>) -> bool {
    forall|i: int, j: int| 0 <= i < j < s.len() ==> s[i] < s[j]
}

// N8: `m.values().last()`  -- std BTreeMap iterates in ascending key order (std documentation)
#[verifier::external_body]
pub fn btree_values_last<'a, V>(m: &'a BTreeMap<u64, V>) -> (r: Option<&'a V>)
    ensures
        m@.dom().len() == 0 ==> r is None,
        m@.dom().len() > 0 ==> r is Some && exists|k: u64| is_max(m@.dom(), k) && *r->0 == m@[k],
{
    m.values().last()
}

// N8: `m.iter().last()`
#[verifier::external_body]
pub fn btree_iter_last<'a, V>(m: &'a BTreeMap<u64, V>) -> (r: Option<(&'a u64, &'a V)>)
    ensures
        m@.dom().len() == 0 ==> r is None,
        m@.dom().len() > 0 ==> r is Some && is_max(m@.dom(), *(r->0).0) && *(r->0).1 == m@[*(r->0).0],
{
    m.iter().last()
}

// N8: `m.keys().last()`
#[verifier::external_body]
pub fn btree_keys_last<'a, V>(m: &'a BTreeMap<u64, V>) -> (r: Option<&'a u64>)
    ensures
        m@.dom().len() == 0 ==> r is None,
        m@.dom().len() > 0 ==> r is Some && is_max(m@.dom(), *r->0),
{
    m.keys().last()
}

// N4: `m.keys().filter(|&&key| P(key)).cloned().collect()`  (the predicate P stays the real text)
#[verifier::external_body]
pub fn btree_keys_where<V, F: Fn(u64) -> bool>(m: &BTreeMap<u64, V>, f: F) -> (r: Vec<u64>)
    requires
        forall|k: u64| m@.dom().contains(k) ==> call_requires(f, (k,)),
    ensures
        strictly_ascending(r@),
        forall|i: int| 0 <= i < r.len() ==> m@.dom().contains(#[trigger] r@[i]) && call_ensures(f, (r@[i],), true),
        forall|k: u64| m@.dom().contains(k) ==> (r@.contains(k) || call_ensures(f, (k,), false)),
{
    m.keys().filter(|k| f(**k)).cloned().collect()
}

// N7: `m.retain(|&key, _| P(key))`
#[verifier::external_body]
pub fn btree_retain_keys<V, F: Fn(u64) -> bool>(m: &mut BTreeMap<u64, V>, f: F)
    requires
        forall|k: u64| old(m)@.dom().contains(k) ==> call_requires(f, (k,)),
    ensures
        forall|k: u64| #[trigger] final(m)@.dom().contains(k) ==> old(m)@.dom().contains(k) && final(m)@[k] == old(m)@[k] && call_ensures(f, (k,), true),
        forall|k: u64| old(m)@.dom().contains(k) ==> (final(m)@.dom().contains(k) || call_ensures(f, (k,), false)),
{
    m.retain(|k, _| f(*k))
}

// N7: `m.split_off(&key)`  -- std: "Splits the collection into two at the given key. Returns everything after the given key,
// including the key"; what stays in `m` is everything strictly below it
#[verifier::external_body]
pub fn btree_split_off<V>(m: &mut BTreeMap<u64, V>, key: u64) -> (r: BTreeMap<u64, V>)
    ensures
        forall|k: u64| #[trigger] final(m)@.contains_key(k) == (old(m)@.contains_key(k) && k < key),
        forall|k: u64| #[trigger] final(m)@.contains_key(k) ==> final(m)@[k] == old(m)@[k],
        forall|k: u64| #[trigger] r@.contains_key(k) == (old(m)@.contains_key(k) && k >= key),
        forall|k: u64| #[trigger] r@.contains_key(k) ==> r@[k] == old(m)@[k],
{
    m.split_off(&key)
}
