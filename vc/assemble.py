"""Assemble a Verus verification unit from a unit template (/verif/units/*.vrs) and the REAL source
text of /repo (re-extracted on every run).

Template syntax
---------------
  //@include <path relative to /verif>
  /*@extract <repo-relative file> :: [impl <regex> ::] <kind> <name>
  ret: r                       name of the return value  ( -> T   becomes  -> (r: T) )
  rename: new_name             rename the extracted fn (logged)
  prefix: <text>               text put in front of the item (e.g. `pub`, attributes)
  body: opaque                 keep signature only, body becomes #[verifier::external_body] (ASSUMED contract)
  auto: off                    do not apply the automatic rules (N1, N13)
  canary: off                  no `ensures false` canary for this fn
  rewrite <RULE> "old" => "new"          exact text, must occur exactly once (else anchor lost -> UNDECIDED)
  rewrite* <RULE> "old" => "new"         exact text, one or more occurrences
  rewrite_re <RULE> "regex" => "repl"    python regex (DOTALL), exactly one match
  rewrite_re* <RULE> "regex" => "repl"   python regex, one or more matches
  contract:
      requires ..., ensures ..., decreases ...     (inserted between signature and body)
  loop <n> [iter <name>]:
      invariant ... decreases ...                   (inserted between the n-th loop header and its `{`)
  before "text":                                    (inserted at the start of the line of the unique occurrence)
      proof { ... }
  after "text":                                     (inserted right after the unique occurrence)
      proof { ... }
  top:                                              (inserted at the start of the body)
      broadcast use ...;
  @*/
Anything else in the template is copied verbatim (prelude, spec fns, lemmas, shim declarations).
"""
import hashlib
import json
import os
import re

from rustscan import ScanError, code_mask, find_item, find_loops

REPO = os.environ.get("VERIF_REPO", "/repo")
VERIF = os.path.dirname(os.path.dirname(os.path.abspath(__file__)))


class AssembleError(Exception):
    """extraction / anchor failure -> UNDECIDED, never a violation"""


def _unq(s):
    return json.loads(s)


_STR = r'"(?:[^"\\]|\\.)*"'

AUTO_RULES = [
    # (rule id, regex, replacement, reason)
    ("N1", r"Box<dyn (?:std::error::)?Error(?: \+ Send \+ Sync)?>", "VErr", "error payload dropped; Ok/Err discrimination kept"),
    ("N1", r"Err\(\s*" + _STR + r"\s*\.into\(\)\s*\)", "Err(verr())", "error payload dropped"),
    ("N1", r"\.ok_or\(\s*" + _STR + r"\s*\)", ".ok_or(verr())", "error payload dropped"),
    ("N1", r"\.ok_or\(\s*" + _STR + r"\s*\.into\(\)\s*\)", ".ok_or(verr())", "error payload dropped"),
    ("N13", r"(?m)^[ \t]*(?:tracing::\w+!|eprintln!|println!|info!|warn!|error!|debug!)\s*\((?:[^()]|\([^()]*\))*\);[ \t]*\n", "", "logging statement dropped"),
]


def _apply_format_err(text, log):
    """Err(format!(...).into())  ->  Err(verr())   (N1) with balanced parens."""
    out = []
    i = 0
    pat = re.compile(r"Err\(\s*format!\(")
    while True:
        m = pat.search(text, i)
        if not m:
            out.append(text[i:])
            break
        # find balanced end of format!( ... )
        k = m.end() - 1
        depth = 0
        j = k
        mask = code_mask(text)
        while j < len(text):
            if mask[j] == "(":
                depth += 1
            elif mask[j] == ")":
                depth -= 1
                if depth == 0:
                    break
            j += 1
        rest = text[j + 1:]
        m2 = re.match(r"\s*\.into\(\)\s*\)", rest)
        if not m2:
            out.append(text[i:m.end()])
            i = m.end()
            continue
        out.append(text[i:m.start()])
        out.append("Err(verr())")
        log.append({"rule": "N1", "from": text[m.start():j + 1 + m2.end()], "to": "Err(verr())", "reason": "error payload dropped"})
        i = j + 1 + m2.end()
    return "".join(out)


def strip_attrs_and_docs(text):
    # an attribute that starts a line and spans several lines (`#[serde(\n rename = "..",\n ..)]`) is dropped as a whole
    text = re.sub(r"(?m)^[ \t]*#\[\w+\(\s*\n(?:[^\[\]]*\n)*?[ \t]*\)\][ \t]*\n", "", text)
    lines = []
    for ln in text.split("\n"):
        s = ln.strip()
        if s.startswith("///") or s.startswith("//!"):
            continue
        if re.match(r"#\[[^\]]*\]$", s):
            continue
        lines.append(ln)
    return "\n".join(lines)


def name_return(sig, ret):
    """ -> T [where ..]   =>   -> (ret: T) [where ..] ; only the top-level arrow of the fn signature"""
    mask = code_mask(sig)
    depth = 0
    arrow = None
    k = 0
    # find the parameter list end first
    p = mask.find("(")
    if p < 0:
        raise AssembleError("signature without parameter list: " + sig)
    from rustscan import match_delim
    pe = match_delim(mask, p)
    m = re.compile(r"->").search(mask, pe)
    if not m:
        return sig  # unit return
    w = re.compile(r"\bwhere\b").search(mask, m.end())
    tend = w.start() if w else len(sig)
    ty = sig[m.end():tend].strip()
    tail = sig[tend:]
    return sig[:m.end()] + " (" + ret + ": " + ty + ")" + ("\n" + tail if tail.strip() else " ")


def parse_directive(block):
    lines = block.split("\n")
    head = lines[0].strip()
    m = re.match(r"(\S+)\s*::\s*(?:impl\s+(.+?)\s*::\s*)?(fn|struct|enum|const|static|trait|impl|type)\s+(.+)$", head)
    if not m:
        raise AssembleError("bad extract header: " + head)
    d = {"file": m.group(1), "impl_re": m.group(2), "kind": m.group(3), "name": m.group(4).strip(),
         "ret": None, "rename": None, "prefix": "", "body": None, "auto": True, "canary": True,
         "rewrites": [], "contract": "", "loops": {}, "before": [], "after": [], "top": "", "bottom": "", "after_loops": {}, "loop_ends": {}, "loopkeys": {}, "sig": None, "lift": None,
         "class": "prop"}
    cur = None
    buf = []

    def flush():
        nonlocal cur, buf
        if cur is None:
            return
        txt = "\n".join(buf)
        kind = cur[0]
        if kind == "contract":
            d["contract"] = txt
        elif kind == "loop":
            d["loops"][cur[1]] = {"iter": cur[2], "text": txt}
        elif kind == "before":
            d["before"].append((cur[1], txt))
        elif kind == "after":
            d["after"].append((cur[1], txt))
        elif kind == "top":
            d["top"] = txt
        elif kind == "bottom":
            d["bottom"] = txt
        elif kind == "after_loop":
            d["after_loops"][cur[1]] = txt
        elif kind == "loop_end":
            d["loop_ends"][cur[1]] = txt
        elif kind == "sig":
            d["sig"] = txt
        cur = None
        buf = []

    for ln in lines[1:]:
        if cur is not None and (ln.startswith(" ") or ln.startswith("\t") or ln.strip() == ""):
            buf.append(ln)
            continue
        flush()
        s = ln.strip()
        if not s:
            continue
        mm = re.match(r"(rewrite(?:_re)?[*?]?)\s+(\w+)\s+(" + _STR + r")\s*=>\s*(" + _STR + r")\s*$", s)
        if mm:
            d["rewrites"].append({"op": mm.group(1), "rule": mm.group(2), "old": _unq(mm.group(3)), "new": _unq(mm.group(4))})
            continue
        mm = re.match(r"rewrite_call\s+(\w+)\s+(" + _STR + r")\s*=>\s*(" + _STR + r")\s*$", s)
        if mm:
            d["rewrites"].append({"op": "rewrite_call", "rule": mm.group(1), "old": _unq(mm.group(2)), "new": _unq(mm.group(3))})
            continue
        mm = re.match(r"(ret|rename|prefix|body|auto|canary|class):\s*(.*)$", s)
        if mm:
            k, v = mm.group(1), mm.group(2).strip()
            if k in ("auto", "canary"):
                d[k] = v not in ("off", "no", "false")
            else:
                d[k] = v
            continue
        mm = re.match(r"loopkey\s+(\d+)\s+(" + _STR + r")\s*$", s)
        if mm:
            # loop n of this directive is THE loop whose header (keyword .. opening brace) contains this text, wherever it
            # stands among the loops of the function (so that two loops that change places keep their own invariants)
            d["loopkeys"][int(mm.group(1))] = _unq(mm.group(2))
            continue
        mm = re.match(r"loop\s+(\d+)(?:\s+iter\s+(\w+))?:\s*$", s)
        if mm:
            cur = ("loop", int(mm.group(1)), mm.group(2))
            continue
        mm = re.match(r"after_loop\s+(\d+):\s*$", s)
        if mm:
            cur = ("after_loop", int(mm.group(1)))
            continue
        mm = re.match(r"loop_end\s+(\d+):\s*$", s)
        if mm:
            cur = ("loop_end", int(mm.group(1)))
            continue
        if s == "bottom:":
            cur = ("bottom",)
            continue
        mm = re.match(r"(before|after)(\?)?\s+(" + _STR + r"):\s*$", s)
        if mm:
            # `before? "text":` - a proof hint for a statement that only some accepted shapes of the function have; where
            # the statement is absent the hint is simply not inserted (the contract is what decides)
            cur = (mm.group(1), ("?" if mm.group(2) else "") + _unq(mm.group(3)))
            continue
        mm = re.match(r"lift\s+(" + _STR + r")\s*$", s)
        if mm:
            d["lift"] = _unq(mm.group(1))
            continue
        mm = re.match(r"lift_stmt\s+(" + _STR + r")\s*$", s)
        if mm:
            d["lift_stmt"] = _unq(mm.group(1))
            continue
        mm = re.match(r"lift_arg\s+(" + _STR + r")\s*$", s)
        if mm:
            # the argument expression of the call whose text ends the anchor (`...name(`) becomes the body of the function
            # named by `sig:`, wrapped as `{ Ok(<expr>) }` (early `return Err(..)` inside the expression keep their meaning)
            d["lift_arg"] = _unq(mm.group(1))
            continue
        mm = re.match(r"lift_wrap:\s*(.*)$", s)
        if mm:
            # the closure body is an expression `Path { fields }` (a struct literal): the lifted function body becomes
            # `{ <wrap> { fields } }`, where <wrap> is the path that precedes the brace in the source
            d["lift_wrap"] = mm.group(1).strip()
            continue
        mm = re.match(r"contract_file:\s*(\S+)$", s)
        if mm:
            d["contract"] = open(os.path.join(VERIF, mm.group(1))).read()
            d["contract_file"] = mm.group(1)
            continue
        if s in ("contract:", "top:", "sig:"):
            cur = (s[:-1],)
            continue
        raise AssembleError("bad directive line in extract %s: %r" % (head, ln))
    flush()
    return d


def apply_rewrites(text, d, log, where):
    if d["auto"]:
        for rid, pat, repl, reason in AUTO_RULES:
            def _sub(m):
                log.append({"rule": rid, "fn": where, "from": m.group(0).strip(), "to": repl, "reason": reason})
                return repl
            text = re.sub(pat, _sub, text)
        text = _apply_format_err(text, log)
    for rw in d["rewrites"]:
        op = rw["op"]
        optional = op.endswith("?")   # zero matches allowed (alternative spellings of one construct)
        many = op.endswith("*") or optional
        if optional:
            op = op[:-1]
        if op == "rewrite_call":
            # `NAME(a1, a2, ...)` (exactly one call site) -> template where $n is the text of the n-th argument, verbatim
            name = rw["old"]
            ordinal = None
            mo = re.match(r"(.*)#(\d+)$", name)
            if mo:
                name, ordinal = mo.group(1), int(mo.group(2))
            mask = code_mask(text)
            hits = [m for m in re.finditer(re.escape(name) + r"\s*\(", mask)]
            if ordinal is not None:
                if ordinal > len(hits):
                    raise AssembleError("rule %s anchor lost in %s: call %s occurs %d times, #%d wanted" % (rw["rule"], where, name, len(hits), ordinal))
                hits = [hits[ordinal - 1]]
            if len(hits) != 1:
                raise AssembleError("rule %s anchor lost in %s: call %s occurs %d times" % (rw["rule"], where, name, len(hits)))
            from rustscan import match_delim
            op_pos = hits[0].end() - 1
            cl = match_delim(mask, op_pos)
            args = []
            depth = 0
            cur = op_pos + 1
            for k in range(op_pos + 1, cl):
                ch = mask[k]
                if ch in "([{":
                    depth += 1
                elif ch in ")]}":
                    depth -= 1
                elif ch == "," and depth == 0:
                    args.append(text[cur:k].strip())
                    cur = k + 1
            last = text[cur:cl].strip()
            if last:
                args.append(last)
            new_call = rw["new"]
            for n_ in sorted(set(int(x) for x in re.findall(r"\$(\d+)", new_call)), reverse=True):
                if n_ > len(args):
                    raise AssembleError("rule %s in %s: call %s has %d arguments, template needs $%d" % (rw["rule"], where, name, len(args), n_))
                new_call = new_call.replace("$%d" % n_, args[n_ - 1])
            new = text[:hits[0].start()] + new_call + text[cl + 1:]
            n = 1
        elif op.startswith("rewrite_re"):
            rx = re.compile(rw["old"], re.S)
            n = len(rx.findall(text))
            if (n == 0 and not optional) or (n != 1 and not many):
                raise AssembleError("rule %s anchor lost in %s: /%s/ matched %d times" % (rw["rule"], where, rw["old"], n))
            new = rx.sub(rw["new"], text)
        else:
            n = text.count(rw["old"])
            if (n == 0 and not optional) or (n != 1 and not many):
                raise AssembleError("rule %s anchor lost in %s: %r occurs %d times" % (rw["rule"], where, rw["old"], n))
            new = text.replace(rw["old"], rw["new"])
        log.append({"rule": rw["rule"], "fn": where, "from": rw["old"], "to": rw["new"], "count": n})
        text = new
    return text


def inject_canary(contract):
    """add `false` as an extra postcondition"""
    mask = code_mask(contract)
    m = re.search(r"\bensures\b", mask)
    if m:
        return contract[:m.end()] + " false," + contract[m.end():]
    m = re.search(r"\b(decreases|opens_invariants|no_unwind)\b", mask)
    if m:
        return contract[:m.start()] + "ensures false,\n    " + contract[m.start():]
    c = contract.rstrip()
    if c and not c.endswith(","):
        c += ","
    return c + "\n    ensures false,\n"


_ORD = [0]
import threading
_LOCK = threading.Lock()


def build_item(d, canary=False, repo=REPO):
    _ORD[0] += 1
    path = os.path.join(repo, d["file"])
    try:
        text = open(path).read()
    except OSError as e:
        raise AssembleError("cannot read %s: %s" % (path, e))
    try:
        it = find_item(text, d["kind"], d["name"], d["impl_re"])
    except ScanError as e:
        raise AssembleError("%s: %s" % (d["file"], e))
    log = []
    where = d["name"]
    item_text = strip_attrs_and_docs(it["text"])
    meta = {"ord": _ORD[0], "has_body": it["body"] is not None, "file": d["file"], "name": d["name"], "impl": d["impl_re"], "kind": d["kind"], "line": it["line"],
            "sha256": it["sha256"], "rewrites": log, "assumed": d["body"] == "opaque", "canary": d["canary"], "class": d["class"]}
    if d["kind"] != "fn":
        out = apply_rewrites(item_text, d, log, where)
        return d["prefix"] + (" " if d["prefix"] else "") + out, meta
    if d.get("lift_arg"):
        anchor = d["lift_arg"]
        n_ = item_text.count(anchor)
        if n_ != 1:
            raise AssembleError("lift_arg anchor lost in %s: %r occurs %d times" % (where, anchor, n_))
        from rustscan import match_delim
        m_ = code_mask(item_text)
        ob = item_text.index(anchor) + len(anchor) - 1
        if m_[ob] != "(":
            raise AssembleError("lift_arg anchor in %s must end with the call's opening parenthesis" % where)
        cb = match_delim(m_, ob)
        log.append({"rule": "N10-lift", "fn": where, "from": anchor, "to": "argument expression lifted into a named function; surrounding text dropped"})
        item_text = "fn lifted__() { Ok(" + item_text[ob + 1:cb].rstrip().rstrip(",") + ") }"
    if d.get("lift_stmt"):
        # N10-lift (statement): the braced statement that starts at the anchor (a loop: anchor text is its header and ends with
        # the opening brace of its body) becomes the whole body of a named function (signature given by `sig:`, the variables
        # it uses are the parameters); everything around it is dropped from this item
        anchor = d["lift_stmt"]
        n_ = item_text.count(anchor)
        if n_ != 1:
            raise AssembleError("lift_stmt anchor lost in %s: %r occurs %d times" % (where, anchor, n_))
        from rustscan import match_brace
        m_ = code_mask(item_text)
        st = item_text.index(anchor)
        ob = st + len(anchor) - 1
        if m_[ob] != "{":
            raise AssembleError("lift_stmt anchor in %s must end with the statement's opening brace" % where)
        cb = match_brace(m_, ob)
        log.append({"rule": "N10-lift", "fn": where, "from": anchor, "to": "statement lifted into a named function; surrounding text dropped"})
        item_text = "fn lifted__() {\n        " + item_text[st:cb + 1] + "\n    }"
    if d.get("lift"):
        # N10-lift: the body of the closure that starts at the anchor (anchor text ends with its opening brace) becomes the
        # body of a named function (signature given by `sig:`); everything around the closure is dropped from this item
        anchor = d["lift"]
        n_ = item_text.count(anchor)
        if n_ != 1:
            raise AssembleError("lift anchor lost in %s: %r occurs %d times" % (where, anchor, n_))
        from rustscan import match_brace
        m_ = code_mask(item_text)
        ob = item_text.index(anchor) + len(anchor) - 1
        if m_[ob] != "{":
            raise AssembleError("lift anchor in %s must end with the closure's opening brace" % where)
        cb = match_brace(m_, ob)
        log.append({"rule": "N10-lift", "fn": where, "from": anchor, "to": "closure body lifted into a named function; surrounding text dropped"})
        if d.get("lift_wrap"):
            if not item_text[:ob].rstrip().endswith(d["lift_wrap"]):
                raise AssembleError("lift_wrap in %s: %r does not precede the anchor's brace" % (where, d["lift_wrap"]))
            item_text = "fn lifted__() { " + d["lift_wrap"] + " " + item_text[ob:cb + 1] + " }"
        else:
            item_text = "fn lifted__() " + item_text[ob:cb + 1]
    # rules apply to the whole item (signature and body), then the text is split again
    item_text = apply_rewrites(item_text, d, log, where)
    mask = code_mask(item_text)
    k = 0
    depth = 0
    b = None
    start_kw = re.search(r"\bfn\b", mask).end()
    k = start_kw
    while k < len(mask):
        ch = mask[k]
        if ch in "([":
            depth += 1
        elif ch in ")]":
            depth -= 1
        elif ch == "{" and depth == 0:
            b = k
            break
        elif ch == ";" and depth == 0:
            break
        k += 1
    if b is None:
        sig, body = item_text[:k].rstrip(), None
    else:
        sig, body = item_text[:b].rstrip(), item_text[b:]
    if d["sig"] is not None:
        log.append({"rule": "SIG", "fn": where, "from": sig, "to": d["sig"].strip(), "reason": "signature replaced by unit"})
        sig = d["sig"].strip()
    else:
        if d["ret"]:
            sig = name_return(sig, d["ret"])
        if d["rename"]:
            sig = re.sub(r"\bfn\s+%s\b" % re.escape(d["name"]), "fn " + d["rename"], sig, count=1)
            log.append({"rule": "RENAME", "fn": where, "from": d["name"], "to": d["rename"]})
    contract = d["contract"]
    canary_here = False
    if canary and d["canary"] and body is not None and d["body"] != "opaque":
        if canary == "top":
            canary_here = True
        elif isinstance(canary, str) and canary.startswith("ensures:"):
            # only the item whose ordinal matches gets `ensures false` (callers keep the real contract of every other fn)
            if int(canary.split(":")[1]) == _ORD[0]:
                contract = inject_canary(contract)
                meta["canary_target"] = True
    if d["body"] == "opaque" or body is None:
        out = "#[verifier::external_body]\n" + d["prefix"] + (" " if d["prefix"] else "") + sig + "\n" + contract.rstrip() + "\n{ unimplemented!() }\n"
        if body is None and d["body"] != "opaque":
            # trait method declaration: keep as declaration with contract
            out = d["prefix"] + (" " if d["prefix"] else "") + sig + "\n" + contract.rstrip() + ";\n"
        return out, meta
    # loops: insert from the last to the first so offsets stay valid
    loops = find_loops(body)
    wanted = set(d["loops"].keys()) | set(d["after_loops"].keys()) | set(d["loop_ends"].keys())
    actual = {}
    for n in wanted:
        if n in d["loopkeys"]:
            key = d["loopkeys"][n]
            idxs = [i for i, lp_ in enumerate(loops) if key in body[lp_["kw_pos"]:lp_["brace_pos"]]]
            if len(idxs) != 1:
                raise AssembleError("loop %d anchor lost in %s: %d loops have %r in their header" % (n, where, len(idxs), key))
            actual[n] = idxs[0] + 1
        else:
            actual[n] = n
    if len(set(actual.values())) != len(actual):
        raise AssembleError("loop anchors of %s collide: %r" % (where, actual))
    for n in sorted(wanted, key=lambda k: actual[k], reverse=True):
        if actual[n] < 1 or actual[n] > len(loops):
            raise AssembleError("loop %d anchor lost in %s: function has %d loops" % (n, where, len(loops)))
        lp = find_loops(body)[actual[n] - 1]  # recomputed: earlier insertions (inner loops) shift later offsets
        if n in d["after_loops"]:
            e = lp["end_pos"] + 1
            body = body[:e] + "\n" + d["after_loops"][n].rstrip() + "\n" + body[e:]
        if n in d["loop_ends"]:
            e = lp["end_pos"]
            body = body[:e] + "\n" + d["loop_ends"][n].rstrip() + "\n" + body[e:]
        if n not in d["loops"]:
            continue
        spec = d["loops"][n]
        ins = "\n" + spec["text"].rstrip() + "\n"
        body = body[:lp["brace_pos"]] + ins + body[lp["brace_pos"]:]
        if spec["iter"]:
            if lp["kw"] != "for":
                raise AssembleError("loop %d in %s is not a for loop" % (n, where))
            hdr = body[lp["kw_pos"]:lp["brace_pos"]]
            mm = re.search(r"\bin\b", code_mask(hdr))
            pos = lp["kw_pos"] + mm.end()
            body = body[:pos] + " " + spec["iter"] + ":" + body[pos:]
    for anchor, txt in d["before"]:
        if anchor.startswith("?"):
            anchor = anchor[1:]
            if body.count(anchor.lstrip("*")) == 0:
                continue
        if anchor.startswith("*"):
            # `*text`: EVERY occurrence (at least one) gets the hint - a second site of the same statement that a change adds is
            # held to the same assertion instead of losing the anchor
            anchor = anchor[1:]
            if body.count(anchor) == 0:
                raise AssembleError("anchor lost in %s: %r occurs 0 times" % (where, anchor))
            ps, q = [], -1
            while True:
                q = body.find(anchor, q + 1)
                if q < 0:
                    break
                ps.append(q)
            for q in reversed(ps):
                ls = body.rfind("\n", 0, q) + 1
                body = body[:ls] + txt.rstrip() + "\n" + body[ls:]
            continue
        # `text##k`: the k-th of exactly N occurrences (`text##k/N`); plain text: the only occurrence
        mo = re.match(r"(?s)(.*)##(\d+)/(\d+)$", anchor)
        if mo:
            anchor, k_, of_ = mo.group(1), int(mo.group(2)), int(mo.group(3))
            n = body.count(anchor)
            if n != of_:
                raise AssembleError("anchor lost in %s: %r occurs %d times, %d expected" % (where, anchor, n, of_))
            p = -1
            for _ in range(k_):
                p = body.index(anchor, p + 1)
        else:
            n = body.count(anchor)
            if n != 1:
                raise AssembleError("anchor lost in %s: %r occurs %d times" % (where, anchor, n))
            p = body.index(anchor)
        ls = body.rfind("\n", 0, p) + 1
        body = body[:ls] + txt.rstrip() + "\n" + body[ls:]
    for anchor, txt in d["after"]:
        if anchor.startswith("?"):
            anchor = anchor[1:]
            if body.count(anchor) == 0:
                continue
        n = body.count(anchor)
        if n != 1:
            raise AssembleError("anchor lost in %s: %r occurs %d times" % (where, anchor, n))
        p = body.index(anchor) + len(anchor)
        body = body[:p] + "\n" + txt.rstrip() + "\n" + body[p:]
    if d["bottom"]:
        e = body.rstrip().rfind("}")
        body = body[:e] + "\n" + d["bottom"].rstrip() + "\n" + body[e:]
    if d["top"]:
        body = "{\n" + d["top"].rstrip() + "\n" + body[1:]
    if canary_here:
        body = "{\n proof { assert(false); } // canary: must FAIL (requires satisfiable)\n" + body[1:]
    prefix = d["prefix"]
    if os.environ.get("VERIF_LOOP_ISOLATION", "off") == "off" and find_loops(body) and "loop_isolation" not in prefix:
        # loops see the facts established before them about variables they do not modify, so an edit that introduces a new
        # local before a loop does not need a new invariant
        prefix = (prefix + " " if prefix else "") + "#[verifier::loop_isolation(false)] #[verifier::allow_complex_invariants]"
    out = prefix + (" " if prefix else "") + sig + "\n" + contract.rstrip() + "\n" + body + "\n"
    return out, meta


def assemble(unit_path, canary=False, repo=REPO):
    """returns (text, info) ; info = {items:[meta + line range], includes:[...]}
    canary: False | "top" (assert(false) at the top of every contracted body) | "ensures:<n>" (n-th item gets `ensures false`)"""
    with _LOCK:
        _ORD[0] = 0
        return assemble_text(open(unit_path).read(), canary, repo, 1)
    return assemble_text(open(unit_path).read(), canary, repo, 1)


def assemble_text(src, canary, repo, line0):
    out_parts = []
    items = []
    includes = []
    pos = 0
    rx = re.compile(r"^//@include[ \t]+(\S+)[ \t]*$|/\*@extract[ \t]+(.*?)@\*/|^//@generate[ \t]+(\w+)([ \t]+[^\n]*)?$", re.S | re.M)
    for m in rx.finditer(src):
        out_parts.append(src[pos:m.start()])
        pos = m.end()
        if m.group(3):
            import generators
            try:
                gen = generators.GENERATORS[m.group(3)](*((m.group(4) or "").split()))
            except generators.GenError as e:
                raise AssembleError("generator %s: %s" % (m.group(3), e))
            # generated text may itself carry extraction directives (record codecs): expand them
            sub, info = assemble_text(gen, canary, repo, line0 + "".join(out_parts).count("\n"))
            out_parts.append(sub)
            items.extend(info["items"])
            includes.extend(info["includes"])
        elif m.group(1):
            p = os.path.join(VERIF, m.group(1))
            includes.append(m.group(1))
            sub, info = assemble_text(open(p).read(), canary, repo, line0 + "".join(out_parts).count("\n"))
            out_parts.append(sub)
            items.extend(info["items"])
            includes.extend(info["includes"])
        else:
            d = parse_directive(m.group(2))
            l0 = line0 + "".join(out_parts).count("\n")
            txt, meta = build_item(d, canary, repo)
            out_parts.append(txt)
            meta["line_start"] = l0
            meta["line_end"] = l0 + txt.count("\n")
            items.append(meta)
    out_parts.append(src[pos:])
    return "".join(out_parts), {"items": items, "includes": includes}


if __name__ == "__main__":
    import sys
    t, info = assemble(sys.argv[1], canary="--canary" in sys.argv)
    sys.stdout.write(t)
    sys.stderr.write(json.dumps(info, indent=1)[:4000] + "\n")
