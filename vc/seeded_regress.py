#!/usr/bin/env python3
"""Self-test of the checks against the stored seeded changes: applies each seeded/<id>/patch.diff to /repo, runs the quick
check of the property it was written for, reverts the patch, and compares the exit code with what meta.json records
(1 = VIOLATION; 2 = UNDECIDED for the two changes that restructure code beyond what can be re-verified).
Usage: python3 vc/seeded_regress.py [id-substring ...]      (leaves /repo clean; never commits anything)"""
import json, os, subprocess, sys, glob, tempfile, atexit
VERIF = os.path.dirname(os.path.dirname(os.path.abspath(__file__)))
REPO = "/repo"
ENV = dict(os.environ)
if "--scratch" in sys.argv:
    # work on a scratch worktree of /repo's HEAD (outside /repo and /verif, removed at exit) so that /repo itself stays
    # free for other work; the Verus units read it through VERIF_REPO (the Kani harnesses of C14 still read /repo)
    sys.argv.remove("--scratch")
    REPO = tempfile.mkdtemp(prefix="verif_regress_", dir="/var/tmp")
    os.rmdir(REPO)
    subprocess.run(["git", "-C", "/repo", "worktree", "add", "--detach", REPO, "HEAD"], check=True, capture_output=True)
    _scratch = REPO
    atexit.register(lambda: subprocess.run(["git", "-C", "/repo", "worktree", "remove", "--force", _scratch], capture_output=True))
    ENV["VERIF_REPO"] = REPO
EXPECT2 = {"C02-range-scan-sorted-only-when-nothing-stored", "C12-header-compared-ignoring-case"}
def main():
    jobs = [a for a in sys.argv[1:] if a.startswith("-j")]
    if jobs:
        n = int(jobs[0][2:] or 4)
        rest = [a for a in sys.argv[1:] if not a.startswith("-j")]
        procs = []
        for w in range(n):
            env = dict(os.environ, VERIF_REGRESS_SHARD="%d/%d" % (w, n), VERIF_BUILD=os.path.join(VERIF, "build", "regress%d" % w))
            procs.append(subprocess.Popen([sys.executable, os.path.abspath(__file__), "--scratch"] + [a for a in rest if a != "--scratch"], env=env))
        rc = 0
        for p in procs:
            rc |= p.wait()
        return rc
    sel = sys.argv[1:]
    bad = 0
    if subprocess.run(["git", "-C", REPO, "status", "--porcelain"], capture_output=True, text=True).stdout.strip():
        print("refusing: %s has local changes" % REPO); return 2
    shard = os.environ.get("VERIF_REGRESS_SHARD")
    count = [0]
    def mine():
        count[0] += 1
        if not shard:
            return True
        w, n = shard.split("/")
        return (count[0] - 1) % int(n) == int(w)
    for d in sorted(glob.glob(os.path.join(VERIF, "seeded", "*"))):
        name = os.path.basename(d)
        if sel and not any(x in name for x in sel):
            continue
        if not mine():
            continue
        meta = json.load(open(os.path.join(d, "meta.json")))
        pid = meta["property"]
        patch = os.path.join(d, "patch.diff")
        a = subprocess.run(["git", "-C", REPO, "apply", patch], capture_output=True, text=True)
        if a.returncode != 0:
            print("%-55s patch does not apply: %s" % (name, a.stderr.strip()[:100])); bad += 1; continue
        try:
            p = subprocess.run([os.path.join(VERIF, "check"), pid], capture_output=True, text=True, cwd=VERIF, env=ENV)
        finally:
            subprocess.run(["git", "-C", REPO, "checkout", "--", "."], check=True)
        want = meta.get("expected_exit", 2 if name in EXPECT2 else 1)
        line = [l for l in p.stdout.splitlines() if l.startswith("FAILED-OBLIGATION") or l.startswith("UNDECIDED:")][:1]
        ok = p.returncode == want
        bad += 0 if ok else 1
        print("%-55s %s exit=%d (want %d) %s" % (name, "ok  " if ok else "FAIL", p.returncode, want, (line[0][:110] if line else "")))
    # every repaired defect must come back as a violation when its fix is taken out again
    kf = json.load(open(os.path.join(VERIF, "known_findings.json")))["findings"]
    dirs = {"D4-D5": "D4_D5"}
    for f in kf:
        if f.get("status") != "fixed":
            continue    # an open finding has no fix to take out; it shows as a KNOWN-FINDING line on the unchanged tree
        name = "revert-fix-" + f["id"]
        if sel and not any(x in name for x in sel):
            continue
        if not mine():
            continue
        fix = os.path.join(VERIF, "findings", dirs.get(f["id"], f["id"]), "fix.diff")
        # a later fix that rewrote the same lines is taken out first (D16 replaced the guard D12 had added)
        chain = [os.path.join(VERIF, "findings", x, "fix.diff") for x in f.get("revert_after", [])] + [fix]
        a = None
        for fx in chain:
            a = subprocess.run(["git", "-C", REPO, "apply", "-R", fx], capture_output=True, text=True)
            if a.returncode != 0:
                break
        if a.returncode != 0:
            subprocess.run(["git", "-C", REPO, "checkout", "--", "."], check=True)
            print("%-55s fix does not reverse-apply: %s" % (name, a.stderr.strip()[:100])); bad += 1; continue
        pid = f["properties"][0]
        try:
            p = subprocess.run([os.path.join(VERIF, "check"), pid], capture_output=True, text=True, cwd=VERIF, env=ENV)
        finally:
            subprocess.run(["git", "-C", REPO, "checkout", "--", "."], check=True)
        line = [l for l in p.stdout.splitlines() if l.startswith("FAILED-OBLIGATION") or l.startswith("UNDECIDED:")][:1]
        want = f.get("revert_expected_exit", 1)
        ok = p.returncode == want
        bad += 0 if ok else 1
        print("%-55s %s exit=%d (want %d) %s %s" % (name, "ok  " if ok else "FAIL", p.returncode, want, pid, (line[0][:100] if line else "")))
    print("seeded regression: %s" % ("all as recorded" if bad == 0 else "%d differ" % bad))
    return 1 if bad else 0
if __name__ == "__main__":
    sys.exit(main())
