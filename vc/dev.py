#!/usr/bin/env python3
"""dev helper: python3 vc/dev.py <unit> [--raw]  -- assemble one unit from /repo and run verus on it, print diagnostics"""
import os, sys
HERE = os.path.dirname(os.path.abspath(__file__)); sys.path.insert(0, HERE)
import assemble as asm, run_verus
VERIF = os.path.dirname(HERE)
unit = sys.argv[1]
out = os.path.join(VERIF, "build", "dev"); os.makedirs(out, exist_ok=True)
try:
    text, info = asm.assemble(os.path.join(VERIF, "units", unit + ".vrs"), canary=False, repo=os.environ.get("VERIF_REPO", "/repo"))
except asm.AssembleError as e:
    print("EXTRACTION:", e); sys.exit(2)
p = os.path.join(out, unit + ".rs"); open(p, "w").write(text)
r = run_verus.run(p, None, 0)
print("status=%s verified=%s errors=%s wall=%.1fs" % (r.get("status"), r.get("verified"), r.get("errors"), r["wall_s"]))
lines = text.split("\n")
for d in r["diags"][:int(os.environ.get("N", "10"))]:
    fn = run_verus.enclosing_fn_name(lines, d["line"] or 0)
    print("DIAG fn=%s kind=%s line=%s: %s | %s" % (fn, d["kind"], d["line"], d["message"][:200], d["text"][:160]))
    for s in d["secondary"][:3]:
        print("      sec line=%s %s | %s" % (s["line"], s["label"], s["text"][:160]))
    if "--raw" in sys.argv:
        print(d["rendered"][:2500])
if r.get("raw_err"):
    print(r["raw_err"][:3000])
slow = sorted(((v["time_us"], k) for k, v in r["functions"].items()), reverse=True)[:5]
print("slowest:", ", ".join("%s %.1fs" % (k.split("::")[-1], t / 1e6) for t, k in slow))
