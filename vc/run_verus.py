"""Run Verus on an assembled unit and map results back to (function, obligation kind)."""
import json
import os
import re
import subprocess
import time

SEMANTIC = [
    # (regex on message, kind, property_derived)
    (r"postcondition not satisfied", "ensures", True),
    (r"unable to prove post-?condition of closure", "closure-ensures", True),
    (r"unable to prove pre-?condition of closure|closure.*precondition", "closure-requires", True),
    (r"precondition not satisfied", "requires-of-callee", True),
    (r"possible arithmetic underflow/overflow", "overflow", True),
    (r"possible division by zero", "div-by-zero", True),
    (r"possible bit shift underflow/overflow", "overflow", True),
    (r"index out of bounds|slice index", "no-panic", True),
    (r"decreases not satisfied|could not prove termination", "decreases", True),
    (r"assertion failed", "assert", False),
    (r"invariant not satisfied before loop", "invariant-entry", False),
    (r"invariant not satisfied at end of loop body", "invariant-step", False),
    (r"loop invariant", "invariant", False),
    (r"failed to meet.*type invariant", "type-invariant", False),
]
RLIMIT = re.compile(r"[Rr]esource limit|rlimit")


def classify(msg):
    for rx, kind, prop in SEMANTIC:
        if re.search(rx, msg):
            return kind, prop
    return None, False


def run(path, rlimit=None, seed=None, timeout=900, extra=None):
    """first attempt in one solver process (fast); if that does not come back - after a FAILED query the shared Z3 context can
    spin without consuming its resource limit (seen on unit dbfacade with a broken get_next_block_height) - a second attempt
    gives every function a solver process of its own (-V spinoff-all), which is slower but isolates the failure"""
    first = int(os.environ.get("VERIF_FIRST_TIMEOUT", "150"))
    r = _run(path, rlimit, seed, min(first, timeout), extra)
    if r.get("status") == "timeout":
        r2 = _run(path, rlimit, seed, timeout, (extra or []) + ["-V", "spinoff-all"])
        r2["wall_s"] = r2.get("wall_s", 0) + r.get("wall_s", 0)
        r2["retried_spinoff"] = True
        return r2
    return r


def _run(path, rlimit=None, seed=None, timeout=900, extra=None):
    """returns dict: ok(bool run completed), verified, errors, functions{name:{success,time_us,rlimit}},
    diags[list], status in {verified, failed, compile-error, timeout, crash}"""
    cmd = ["verus", os.path.basename(path), "--output-json", "--time", "--multiple-errors", "8",
           "--error-format=json"]
    if rlimit:
        cmd += ["--rlimit", str(rlimit)]
    if seed is not None:
        cmd += ["--smt-option", "smt.random_seed=%d" % (int(seed) % 1000000)]
    if extra:
        cmd += extra
    t0 = time.time()
    # own process group: on a timeout the solver processes verus has spawned are killed with it (an orphaned z3 spins for ever)
    import signal
    import types
    pr = subprocess.Popen(cmd, cwd=os.path.dirname(path), stdout=subprocess.PIPE, stderr=subprocess.PIPE, text=True, start_new_session=True)
    try:
        out, err = pr.communicate(timeout=timeout)
    except subprocess.TimeoutExpired:
        try:
            os.killpg(pr.pid, signal.SIGKILL)
        except Exception:
            pr.kill()
        pr.communicate()
        return {"status": "timeout", "cmd": " ".join(cmd), "wall_s": time.time() - t0, "diags": [], "functions": {},
                "verified": 0, "errors": 0, "raw_err": "timeout after %ds" % timeout}
    p = types.SimpleNamespace(stdout=out, stderr=err, returncode=pr.returncode)
    wall = time.time() - t0
    res = {"cmd": " ".join(cmd), "wall_s": wall, "diags": [], "functions": {}, "verified": 0, "errors": 0,
           "raw_err": "", "smt_ms": 0}
    try:
        j = json.loads(p.stdout)
    except Exception:
        j = None
    diags = []
    other_errors = []
    for ln in p.stderr.splitlines():
        ln = ln.strip()
        if not ln.startswith("{"):
            if ln:
                res["raw_err"] += ln + "\n"
            continue
        try:
            d = json.loads(ln)
        except Exception:
            continue
        if d.get("level") not in ("error",):
            continue
        msg = d.get("message", "")
        if msg.startswith("aborting due to"):
            continue
        kind, prop = classify(msg)
        spans = d.get("spans", [])
        prim = [s for s in spans if s.get("is_primary")]
        sec = [s for s in spans if not s.get("is_primary")]
        ent = {"message": msg, "kind": kind, "property_derived": prop,
               "line": prim[0]["line_start"] if prim else None,
               "text": (prim[0]["text"][0]["text"].strip() if prim and prim[0].get("text") else ""),
               "secondary": [{"line": s["line_start"], "label": s.get("label"),
                              "text": (s["text"][0]["text"].strip() if s.get("text") else "")} for s in sec],
               "rendered": d.get("rendered", "")}
        if kind is None:
            if RLIMIT.search(msg):
                ent["kind"] = "rlimit"
            other_errors.append(ent)
        diags.append(ent)
    res["diags"] = diags
    if j is None or "verification-results" not in j:
        res["status"] = "compile-error" if other_errors or p.returncode != 0 else "crash"
        if not res["raw_err"]:
            res["raw_err"] = p.stderr[-3000:]
        return res
    vr = j["verification-results"]
    res["verified"] = vr.get("verified", 0)
    res["errors"] = vr.get("errors", 0)
    try:
        for mod in j["times-ms"]["smt"]["smt-run-module-times"]:
            for f in mod.get("function-breakdown", []):
                nm = f["function"]
                # a function may appear several times (multiple queries); success = all succeed
                prev = res["functions"].get(nm)
                ent = {"success": bool(f.get("success")) and (prev["success"] if prev else True),
                       "time_us": f.get("time-micros", 0) + (prev["time_us"] if prev else 0),
                       "rlimit": f.get("rlimit", 0) + (prev["rlimit"] if prev else 0),
                       "mode": f.get("mode:", f.get("mode", ""))}
                res["functions"][nm] = ent
        res["smt_ms"] = j["times-ms"]["smt"].get("smt-run", 0)
        res["total_ms"] = j["times-ms"].get("total", 0)
    except Exception:
        pass
    if vr.get("encountered-vir-error") or (other_errors and not all(e["kind"] == "rlimit" for e in other_errors)):
        res["status"] = "compile-error"
    elif vr.get("success"):
        res["status"] = "verified"
    else:
        res["status"] = "failed"
    return res


def locate(items, line):
    for it in items:
        if it["line_start"] <= line <= it["line_end"]:
            return it
    return None


def enclosing_fn_name(text_lines, line):
    for k in range(min(line, len(text_lines)) - 1, -1, -1):
        m = re.search(r"\bfn\s+(\w+)", text_lines[k])
        if m:
            return m.group(1)
    return "?"
