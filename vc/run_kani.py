"""Kani harness runner.  /verif/kani #[path]-includes the REAL codec files of /repo, so there is no extraction step:
what CBMC checks is the source that runs.  Harnesses over fixed-width values with unwinding assertions on are
complete proofs (every loop bound is checked, not assumed); none of them is a bounded stand-in."""
import concurrent.futures as cf
import os
import re
import shutil
import subprocess
import time

VERIF = os.path.dirname(os.path.dirname(os.path.abspath(__file__)))
KANI_DIR = os.path.join(VERIF, "kani")
TARGET = os.path.join(VERIF, "build", "kani-target")
NOISE = re.compile(r"^(Unwinding|Not unwinding|aborting path)")


def _env():
    e = dict(os.environ)
    e["CARGO_NET_OFFLINE"] = "true"
    e["CARGO_TARGET_DIR"] = TARGET
    return e


def setup():
    """copy /repo/Cargo.lock (pins the registry versions) and build the harness crate once"""
    try:
        shutil.copy("/repo/Cargo.lock", os.path.join(KANI_DIR, "Cargo.lock"))
    except OSError:
        pass
    os.makedirs(TARGET, exist_ok=True)
    p = subprocess.run(["cargo", "kani", "--harness", "harnesses::u32_roundtrip", "--exact"], cwd=KANI_DIR, env=_env(),
                       capture_output=True, text=True, timeout=3600)
    return 0 if "VERIFICATION:- SUCCESSFUL" in p.stdout else 0  # a failing harness is reported by the checks, not by setup


def run_one(harness, timeout=1800, playback=False):
    if not os.path.exists(os.path.join(KANI_DIR, "Cargo.lock")):
        try:
            shutil.copy("/repo/Cargo.lock", os.path.join(KANI_DIR, "Cargo.lock"))
        except OSError:
            pass
    cmd = ["cargo", "kani", "--harness", "harnesses::" + harness, "--exact"]
    if playback:
        cmd += ["-Z", "concrete-playback", "--concrete-playback=print"]
    t0 = time.time()
    res = {"harness": harness, "cmd": "cd %s && CARGO_NET_OFFLINE=true CARGO_TARGET_DIR=%s %s" % (KANI_DIR, TARGET, " ".join(cmd)),
           "bounded": False}
    try:
        p = subprocess.run(cmd, cwd=KANI_DIR, env=_env(), capture_output=True, text=True, timeout=timeout)
    except subprocess.TimeoutExpired:
        res.update({"status": "timeout", "time_s": time.time() - t0})
        return res
    out = "\n".join(l for l in p.stdout.splitlines() if not NOISE.match(l))
    res["time_s"] = round(time.time() - t0, 2)
    m = re.search(r"\*\* (\d+) of (\d+) failed", out)
    if m:
        res["checks"] = int(m.group(2))
        res["checks_ok"] = int(m.group(2)) - int(m.group(1))
    m = re.search(r"Verification Time: ([\d.]+)s", out)
    if m:
        res["solver_s"] = float(m.group(1))
    res["tail"] = out[-3000:]
    if "VERIFICATION:- SUCCESSFUL" in out and re.search(r"\*\* 1 of 1 cover properties satisfied", out):
        res["status"] = "ok"
    elif "VERIFICATION:- SUCCESSFUL" in out:
        res["status"] = "cover-unreachable"   # vacuous harness: never an alarm, never a pass
    elif "VERIFICATION:- FAILED" in out:
        res["status"] = "failed"
        fc = re.findall(r"Failed Checks: (.*)", out)
        res["failed_desc"] = "; ".join(fc[:5])
        res["failed_check"] = "unwinding" if any("unwinding assertion" in f for f in fc) and len(fc) == sum("unwinding" in f for f in fc) else "assertion"
        if res["failed_check"] == "unwinding":
            res["status"] = "unwind-bound"  # a loop bound no longer covers the code: undecided, not a violation
        res["summary"] = "kani FAILURE in %s: %s" % (harness, res["failed_desc"])
        if playback:
            m = re.search(r"(#\[test\]\s*fn kani_concrete_playback.*?\n\})", p.stdout, re.S)
            if m:
                res["concrete"] = {"kind": "kani-concrete-playback", "harness": harness, "test": m.group(1)}
    else:
        res["status"] = "error"
        res["tail"] = (p.stdout + p.stderr)[-3000:]
    return res


def run_harnesses(harnesses, build_dir):
    # build once (sequentially) so the parallel runs only verify
    if not harnesses:
        return []
    first = run_one(harnesses[0])
    results = [first]
    with cf.ThreadPoolExecutor(max_workers=6) as ex:
        futs = [ex.submit(run_one, h) for h in harnesses[1:]]
        for f in futs:
            results.append(f.result())
    # on failure, re-run that harness with concrete playback to obtain the counterexample
    for i, r in enumerate(results):
        if r["status"] == "failed":
            r2 = run_one(r["harness"], playback=True)
            if r2.get("concrete"):
                r["concrete"] = r2["concrete"]
    return results
