"""Kani harness runner (real files are #[path]-included by /verif/kani)."""


def setup():
    return 0


def run_harnesses(harnesses, build_dir):
    return []
