#!/usr/bin/env python3
"""Entry point:  ./check <Cxx> [--tier quick|thorough] [--replay <file>] | --setup | --rebaseline [unit...]

Exit codes: 0 property held on every obligation; 1 VIOLATION (line printed); 2 UNDECIDED (never an alarm).
"""
import concurrent.futures as cf
import hashlib
import json
import os
import re
import shutil
import subprocess
import sys
import time

HERE = os.path.dirname(os.path.abspath(__file__))
VERIF = os.path.dirname(HERE)
sys.path.insert(0, HERE)

import assemble as asm  # noqa: E402
import run_verus  # noqa: E402
import run_kani  # noqa: E402
from props import PROPS, UNIT_NOTES  # noqa: E402

BUILD = os.environ.get("VERIF_BUILD") or os.path.join(VERIF, "build")   # VERIF_BUILD: a private build directory (parallel self-tests)
REPO = os.environ.get("VERIF_REPO", "/repo")

TRUST_PATTERNS = [r"\bassume\s*\(", r"\badmit\s*\(", r"external_body", r"assume_specification", r"external_type_specification",
                  r"#\[verifier::external", r"\baxiom\b"]


def scan_trusted(text):
    """mechanical scan of the assembled file for every trusted / unverified construct"""
    found = []
    lines = text.split("\n")
    for i, ln in enumerate(lines):
        code = ln.split("//")[0]
        for pat in TRUST_PATTERNS:
            if re.search(pat, code):
                # describe with the next fn / struct name
                desc = None
                for k in range(i, min(i + 6, len(lines))):
                    m = re.search(r"\b(fn|struct|enum)\s+(\w+)", lines[k])
                    if m:
                        desc = m.group(2)
                        break
                    m = re.search(r"assume_specification(?:<[^\[]*>)?\s*\[\s*([^\]]+)\]", lines[k])
                    if m:
                        desc = m.group(1).strip()
                        break
                m = re.search(r"assume_specification(?:<[^\[]*>)?\s*\[\s*([^\]]+)\]", code)
                if m:
                    desc = m.group(1).strip()
                tag = re.sub(r"\\[bs]\*?|\\|\(|\[|#", "", pat)
                found.append("%s: %s" % (tag.strip(), desc or ln.strip()[:60]))
                break
    out = []
    for f in found:
        if f not in out:
            out.append(f)
    return out


def count_clauses(text):
    """syntactic count of contract clauses in the assembled file (requires/ensures/invariant/decreases/assert)"""
    mask = asm.code_mask(text)
    return {k: len(re.findall(r"\b%s\b" % k, mask)) for k in ("requires", "ensures", "invariant", "decreases", "assert")}


def run_unit(pid, unit, tier, seed):
    """assemble + verus (main and canary). returns result dict."""
    upath = os.path.join(VERIF, "units", unit + ".vrs")
    out_dir = os.path.join(BUILD, pid)
    os.makedirs(out_dir, exist_ok=True)
    res = {"unit": unit, "undecided": [], "failures": [], "functions": {}, "canary": {}, "items": [], "rewrites": [],
           "trusted": [], "clauses": {}, "cmd": "", "wall_s": 0.0, "smt_ms": 0, "verified": 0}
    try:
        text, info = asm.assemble(upath, canary=False, repo=REPO)
        ctext, cinfo = asm.assemble(upath, canary="top", repo=REPO)
    except asm.AssembleError as e:
        res["undecided"].append("extraction: %s" % e)
        return res
    except Exception as e:  # scanner failure is never an alarm
        res["undecided"].append("extraction crashed: %r" % e)
        return res
    main_path = os.path.join(out_dir, unit + ".rs")
    can_path = os.path.join(out_dir, unit + "_canary.rs")
    open(main_path, "w").write(text)
    open(can_path, "w").write(ctext)
    res["items"] = info["items"]
    res["trusted"] = scan_trusted(text)
    res["clauses"] = count_clauses(text)
    for it in info["items"]:
        for rw in it["rewrites"]:
            res["rewrites"].append(rw)
    rl = 30 if tier == "thorough" else None
    ens_jobs = []
    with cf.ThreadPoolExecutor(max_workers=8) as ex:
        f_main = ex.submit(run_verus.run, main_path, rl, seed)
        f_can = ex.submit(run_verus.run, can_path, rl, seed)
        if tier == "thorough":
            # per-function `ensures false` canaries: also catches contradictory ASSUMED specs of callees
            for it in info["items"]:
                if it["kind"] == "fn" and it["canary"] and it["has_body"] and not it["assumed"]:
                    try:
                        etext, einfo = asm.assemble(upath, canary="ensures:%d" % it["ord"], repo=REPO)
                    except Exception:
                        continue
                    ep = os.path.join(out_dir, "%s_canary_e%d.rs" % (unit, it["ord"]))
                    open(ep, "w").write(etext)
                    tgt = [x for x in einfo["items"] if x.get("canary_target")]
                    ens_jobs.append((it, tgt[0] if tgt else None, ex.submit(run_verus.run, ep, rl, seed)))
        r = f_main.result()
        rc = f_can.result()
        ens_res = [(it, tgt, f.result()) for it, tgt, f in ens_jobs]
    res["cmd"] = "cd %s && %s" % (out_dir, r["cmd"])
    res["wall_s"] = r["wall_s"] + rc["wall_s"]
    res["smt_ms"] = r.get("smt_ms", 0)
    res["verified"] = r.get("verified", 0)
    res["functions"] = r["functions"]
    lines = text.split("\n")
    if r["status"] in ("compile-error", "crash", "timeout"):
        msg = "; ".join(d["message"] for d in r["diags"][:3]) or r.get("raw_err", "")[-400:]
        res["undecided"].append("verus %s on unit %s: %s" % (r["status"], unit, msg))
        return res
    if r["status"] == "failed":
        # a failure must persist under another seed and a larger resource limit, otherwise it is an unstable query
        r2 = run_verus.run(main_path, 40, seed + 104729)
        k1 = sorted(set((d["line"], d["kind"]) for d in r["diags"] if d["kind"] and d["kind"] != "rlimit"))
        k2 = sorted(set((d["line"], d["kind"]) for d in r2["diags"] if d["kind"] and d["kind"] != "rlimit"))
        if r2["status"] == "verified" or k1 != k2:
            res["undecided"].append("unstable query in unit %s: verdict differs between seeds/rlimits (%s vs %s)" % (unit, k1, k2))
            if r2["status"] == "verified":
                return res
            r = r2
    # failures of the main run
    for d in r["diags"]:
        if d["kind"] is None:
            continue
        if d["kind"] == "rlimit":
            res["undecided"].append("rlimit in unit %s: %s" % (unit, d["message"]))
            continue
        it = run_verus.locate(info["items"], d["line"]) if d["line"] else None
        fn = it["name"] if it else run_verus.enclosing_fn_name(lines, d["line"] or 1)
        extracted = it is not None
        # policy: an obligation generated from real code that discharged on the pinned tree and now fails with a
        # semantic verdict is a violation of that function's contract; failures of hand-written lemmas are
        # auxiliary unless the lemma is named prop_*
        prop = (extracted and it.get("class", "prop") == "prop") or fn.startswith("prop_")
        res["failures"].append({"unit": unit, "function": fn, "extracted": extracted, "kind": d["kind"],
                                "property_derived": bool(prop), "message": d["message"], "at": d["text"],
                                "secondary": d["secondary"], "rendered": d["rendered"],
                                "source_file": it["file"] if it else None, "source_sha256": it["sha256"] if it else None})
    # baseline obligations
    bpath = os.path.join(VERIF, "baseline", unit + ".json")
    if os.path.exists(bpath):
        base = json.load(open(bpath))
        for fn in base["functions"]:
            f = r["functions"].get(fn)
            # obligations generated per call site of the source (unit locks): their existence follows the shape of the code, a
            # call site that is gone is not a lost proof; the vacuity guard prop_lock_regions_seen stays required
            if f is None and fn.split("::")[-1].startswith("prop_lock_") and not fn.endswith("prop_lock_regions_seen"):
                continue
            if f is None:
                res["undecided"].append("baseline obligation lost: %s (unit %s)" % (fn, unit))
            elif not f["success"] and not res["failures"]:
                res["undecided"].append("baseline obligation failed without a diagnostic: %s" % fn)
    else:
        res["undecided"].append("no baseline for unit %s" % unit)
    # canaries
    if rc["status"] in ("compile-error", "crash", "timeout"):
        res["undecided"].append("canary run %s on unit %s" % (rc["status"], unit))
    else:
        for it in cinfo["items"]:
            if it["kind"] != "fn" or not it["canary"] or it["assumed"] or not it["has_body"]:
                continue
            hit = any(d["line"] and it["line_start"] <= d["line"] <= it["line_end"] and d["kind"] == "assert" for d in rc["diags"])
            res["canary"]["%s@%d:requires-satisfiable" % (it["name"], it["line_start"])] = bool(hit)
            if not hit:
                res["undecided"].append("vacuity: `assert(false)` at the top of %s is provable in unit %s (contradictory requires)" % (it["name"], unit))
    for it, tgt, re_ in ens_res:
        if re_["status"] in ("compile-error", "crash", "timeout") or tgt is None:
            res["undecided"].append("ensures-false canary run %s for %s" % (re_["status"], it["name"]))
            continue
        hit = any(d["kind"] and ((d["line"] and tgt["line_start"] <= d["line"] <= tgt["line_end"]) or
                                 any(tgt["line_start"] <= s_["line"] <= tgt["line_end"] for s_ in d["secondary"])) for d in re_["diags"])
        res["canary"]["%s@%d:ensures-false-fails" % (it["name"], it["line_start"])] = bool(hit)
        if not hit:
            res["undecided"].append("vacuity: `ensures false` is provable for %s in unit %s (contradictory requires or assumed spec)" % (it["name"], unit))
    return res


def load_known():
    p = os.path.join(VERIF, "known_findings.json")
    if not os.path.exists(p):
        return []
    return json.load(open(p)).get("findings", [])


def is_known(pid, f, known):
    for k in known:
        if k.get("status") != "open":
            continue
        if pid not in k.get("properties", []) and not k.get("seen_from_any_property"):
            # (an open finding in a unit that several properties run is reported, under ITS property, by each of them)
            continue
        if k.get("unit") == f.get("unit") and k.get("function") == f["function"] and k.get("kind") == f["kind"]:
            if k.get("at") and k["at"] not in (f.get("at") or ""):
                continue
            return k
    return None


def rebaseline(units):
    for unit in units:
        r = run_unit("_baseline", unit, "quick", 0)
        if r["undecided"] and not all(u.startswith("no baseline") for u in r["undecided"]):
            print("unit %s: UNDECIDED %s" % (unit, r["undecided"]))
        if r["failures"]:
            print("unit %s: %d failures (kept out of the baseline):" % (unit, len(r["failures"])))
            for f in r["failures"]:
                print("   ", f["function"], f["kind"], f["at"])
        ok = sorted(fn for fn, v in r["functions"].items() if v["success"])
        json.dump({"unit": unit, "functions": ok}, open(os.path.join(VERIF, "baseline", unit + ".json"), "w"), indent=1)
        print("unit %s: baseline %d functions" % (unit, len(ok)))


def setup():
    os.makedirs(BUILD, exist_ok=True)
    # warm verus (first run is slow) and pre-build the kani harness crate dependencies
    p = os.path.join(BUILD, "warm.rs")
    open(p, "w").write("use vstd::prelude::*;\nverus!{ proof fn t() ensures 1 + 1 == 2int {} }\nfn main(){}\n")
    subprocess.run(["verus", "warm.rs"], cwd=BUILD, capture_output=True)
    rc = run_kani.setup()
    return rc


def main(argv):
    if "--setup" in argv:
        sys.exit(setup())
    if "--rebaseline" in argv:
        units = [a for a in argv[1:] if not a.startswith("--")]
        if not units:
            units = sorted(f[:-4] for f in os.listdir(os.path.join(VERIF, "units")) if f.endswith(".vrs"))
        rebaseline(units)
        return 0
    pid = argv[1]
    tier = os.environ.get("VERIF_TIER", "quick")
    if "--tier" in argv:
        tier = argv[argv.index("--tier") + 1]
    seed = int(os.environ.get("VERIF_SEED", "0") or 0)
    if "--replay" in argv:
        path = argv[argv.index("--replay") + 1]
        return replay(pid, path)
    if pid not in PROPS:
        print("unknown or unclaimed property %s" % pid)
        return 2
    P = PROPS[pid]
    t0 = time.time()
    units = list(P["units"]) + (list(P.get("units_thorough", [])) if tier == "thorough" else [])
    results = []
    with cf.ThreadPoolExecutor(max_workers=6) as ex:
        futs = [ex.submit(run_unit, pid, u, tier, seed) for u in units]
        for f in futs:
            results.append(f.result())
    # thorough: second seed to expose unstable queries
    unstable = []
    if tier == "thorough":
        with cf.ThreadPoolExecutor(max_workers=6) as ex:
            futs = [ex.submit(run_unit, pid + "_seed2", u, tier, seed + 7919) for u in units]
            for u, f in zip(units, futs):
                r2 = f.result()
                r1 = [r for r in results if r["unit"] == u][0]
                k1 = sorted((x["function"], x["kind"]) for x in r1["failures"])
                k2 = sorted((x["function"], x["kind"]) for x in r2["failures"])
                if k1 != k2:
                    unstable.append("unit %s: verdict differs between seeds (%s vs %s)" % (u, k1, k2))
    # Kani
    harnesses = list(P.get("kani", [])) + (list(P.get("kani_thorough", [])) if tier == "thorough" else [])
    kres = run_kani.run_harnesses(harnesses, BUILD) if harnesses else []

    known = load_known()
    failures, undecided, known_hits = [], list(unstable), []
    for r in results:
        undecided += r["undecided"]
        for f in r["failures"]:
            k = is_known(pid, f, known)
            if k:
                known_hits.append((k, f))
            else:
                failures.append(f)
    for k in kres:
        if k["status"] == "failed":
            f = {"unit": "kani", "function": k["harness"], "extracted": True, "kind": "kani-" + (k.get("failed_check") or "check"),
                 "property_derived": True, "message": k.get("summary", ""), "at": k.get("failed_desc", ""),
                 "rendered": k.get("tail", ""), "secondary": [], "concrete": k.get("concrete"), "source_file": None,
                 "source_sha256": None}
            kk = is_known(pid, f, known)
            if kk:
                known_hits.append((kk, f))
            else:
                failures.append(f)
        elif k["status"] != "ok":
            undecided.append("kani harness %s: %s" % (k["harness"], k["status"]))

    # a function whose ONLY failing obligations are open findings (known_findings.json, status open) is not claimed as proved
    # and is not counted: it is listed on its own (open_finding_functions).  Every other obligation of such a function has
    # still been checked (verus --multiple-errors), and any other failure in it is a failure like any other.
    failed_fns = set((f["unit"], f["function"]) for f in failures)
    open_fns = sorted(set((f["unit"], f["function"]) for _, f in known_hits) - failed_fns)
    n_open = sum(1 for r in results for fn, v in r["functions"].items()
                 if not v["success"] and any(u == r["unit"] and (fn == g or fn.endswith("::" + g) or g in fn) for u, g in open_fns))
    obligations = sum(len(r["functions"]) for r in results) + sum(k.get("checks", 0) for k in kres) - n_open
    discharged = sum(1 for r in results for v in r["functions"].values() if v["success"]) + sum(k.get("checks_ok", 0) for k in kres)
    canaries = {}
    for r in results:
        canaries.update({r["unit"] + "/" + k: v for k, v in r["canary"].items()})

    prop_fail = [f for f in failures if f["property_derived"]]
    aux_fail = [f for f in failures if not f["property_derived"]]
    verdict = "OK"
    lines_out = []
    replay_path = None
    if prop_fail or aux_fail:
        # try to obtain a concrete failing input on the real code (confirmation runner); never decides alone
        concrete = None
        try:
            import confirm
            concrete = confirm.find_input(pid, failures, BUILD)
        except Exception as e:  # confirmation is best effort
            concrete = None
            undecided.append("confirmation runner unavailable: %r" % e)
        for f in failures:
            if f.get("concrete"):
                concrete = concrete or f["concrete"]
        if prop_fail or concrete:
            verdict = "VIOLATION"
            os.makedirs(os.path.join(BUILD, "replay"), exist_ok=True)
            first = (prop_fail or aux_fail)[0]
            replay_path = os.path.join(BUILD, "replay", "%s-%s-%s.json" % (pid, first["function"], first["kind"]))
            json.dump({"property": pid, "obligation": "%s/%s/%s" % (first["unit"], first["function"], first["kind"]),
                       "function": first["function"], "source_file": first.get("source_file"),
                       "source_sha256": first.get("source_sha256"),
                       "all_failed_obligations": ["%s/%s/%s @ %s" % (f["unit"], f["function"], f["kind"], f["at"]) for f in failures],
                       "verifier_output": "\n".join(f["rendered"] for f in failures)[:20000],
                       "input": concrete}, open(replay_path, "w"), indent=1)
        else:
            verdict = "UNDECIDED"
            undecided.append("only auxiliary obligations failed and no concrete failing input was found: " +
                             ", ".join("%s/%s/%s" % (f["unit"], f["function"], f["kind"]) for f in aux_fail))
    elif undecided:
        verdict = "UNDECIDED"

    for k, f in known_hits:
        print("KNOWN-FINDING: property=%s %s [%s/%s/%s]" % (pid if pid in k.get("properties", []) else k["properties"][0], k.get("what", ""), f["unit"], f["function"], f["kind"]))
    wall = time.time() - t0

    # evidence
    samples = []
    for r in results:
        for fn, v in sorted(r["functions"].items(), key=lambda kv: -kv[1]["time_us"])[:6]:
            samples.append({"obligation": "%s/%s" % (r["unit"], fn), "mode": v["mode"], "discharged": v["success"],
                            "solver_us": v["time_us"], "rlimit": v["rlimit"], "backend": "verus-z3"})
    for k in kres:
        samples.append({"obligation": "kani/" + k["harness"], "discharged": k["status"] == "ok", "checks": k.get("checks"),
                        "solver_s": k.get("time_s"), "backend": "kani-cbmc", "bounded": k.get("bounded", False)})
    funcs = []
    assumed_fns = []
    extraction = []
    for r in results:
        for it in r["items"]:
            if it["kind"] == "fn":
                (assumed_fns if it["assumed"] else funcs).append("%s::%s%s" % (it["file"], (it["impl"] + "::") if it["impl"] else "", it["name"]))
            extraction.append({"file": it["file"], "item": it["name"], "line": it["line"], "sha256": it["sha256"][:16],
                               "rewrites": ["%s: %s => %s" % (w["rule"], w["from"][:80], w["to"][:80]) for w in it["rewrites"]]})
    trusted = []
    for r in results:
        for t in r["trusted"]:
            if t not in trusted:
                trusted.append(t)
    trusted += ["vstd specifications of std (Vec, Option, Result, HashMap, BTreeMap, iterators)", "Z3 4.12 via Verus 0.2026.09.13", "rustc front end"]
    if kres:
        trusted += ["CBMC 6.11 / Kani 0.68 models of alloc and core"]
    ev = {
        "property_id": pid, "tier": tier, "seed": seed, "level": P.get("level", "proof"),
        "coverage": {
            "obligations": obligations, "discharged": discharged,
            "checker_cmd": " ; ".join([r["cmd"] for r in results if r["cmd"]] + [k["cmd"] for k in kres if k.get("cmd")]) or "none",
            "trusted_base": trusted,
            "samples": samples[:24],
            "functions_under_contract": funcs,
            "functions_with_assumed_contract": assumed_fns,
            "contract_clauses": {r["unit"]: r["clauses"] for r in results},
            "backends": {"verus-z3": {"units": len(results), "queries": sum(len(r["functions"]) for r in results),
                                      "smt_ms": sum(r["smt_ms"] for r in results), "wall_s": round(sum(r["wall_s"] for r in results), 2)},
                         "kani-cbmc": {"harnesses": len(kres), "time_s": round(sum(k.get("time_s", 0) for k in kres), 2),
                                       "bounded_harnesses": [k["harness"] for k in kres if k.get("bounded")]}},
            "extraction": extraction,
            "extraction_drops": "error payloads (N1), logging (N13), closure bodies passed to SharedData unless lifted (N10), async fns, everything touching revm/jsonrpsee/tokio/bitcoin RPC; see DESIGN.md 2.2/2.3",
            "canaries": canaries,
            "undecided": undecided,
            "known_findings_hit": ["%s/%s/%s" % (f["unit"], f["function"], f["kind"]) for _, f in known_hits],
            "open_finding_functions": ["%s/%s" % uf for uf in open_fns],
            "open_finding_functions_not_counted": n_open,
            "failed_obligations": ["%s/%s/%s @ %s" % (f["unit"], f["function"], f["kind"], f["at"]) for f in failures],
            "verdict": verdict,
            "unit_notes": {u: UNIT_NOTES.get(u, "") for u in units},
        },
        "assumptions": P.get("assumptions", []),
        "wall_s": round(wall, 2),
        "violations": len(failures) if verdict == "VIOLATION" else 0,
    }
    if obligations == 0 or discharged == 0:
        # nothing was verified in this run (extraction or compilation failed before any query was posed): this is not a
        # proof-level run and is not reported as one
        ev["level"] = "other"
        ev["coverage"]["explanation"] = ("no obligation was discharged in this run, so nothing is claimed at proof level: "
                                         + ("; ".join(undecided) if undecided else "no unit produced a verification query"))
    # the registered evidence file describes /repo itself: a self-test run against a scratch copy (VERIF_REPO) or with a private
    # build directory (VERIF_BUILD) writes its record next to its build output instead
    ev_dir = os.path.join(VERIF, "evidence") if (REPO == "/repo" and not os.environ.get("VERIF_BUILD")) else os.path.join(BUILD, "evidence")
    os.makedirs(ev_dir, exist_ok=True)
    json.dump(ev, open(os.path.join(ev_dir, pid + ".json"), "w"), indent=1)

    print("%s %s tier=%s: %d/%d obligations discharged%s (verus units: %s; kani harnesses: %d), %.1fs" % (
        pid, verdict, tier, discharged, obligations,
        (" + %d function(s) under an open finding, not counted" % n_open) if n_open else "", ",".join(units), len(kres), wall))
    for u in undecided:
        print("UNDECIDED: " + u)
    for f in failures:
        print("FAILED-OBLIGATION: %s/%s/%s%s at `%s`" % (f["unit"], f["function"], f["kind"],
                                                       "" if f["property_derived"] else " (auxiliary)", f["at"]))
    if verdict == "VIOLATION":
        has_input = False
        try:
            has_input = json.load(open(replay_path)).get("input") is not None
        except Exception:
            pass
        print("VIOLATION property=%s replay=%s%s" % (pid, replay_path, "" if has_input else " no-failing-input-found"))
        return 1
    if verdict == "UNDECIDED":
        return 2
    return 0


def replay(pid, path):
    j = json.load(open(path))
    print("replay of %s: obligation %s (function %s)" % (pid, j.get("obligation"), j.get("function")))
    if j.get("input") is None:
        print("no concrete input recorded (no-failing-input-found); verifier output follows")
        print(j.get("verifier_output", ""))
        return 1
    import confirm
    return confirm.replay(pid, j)


if __name__ == "__main__":
    sys.exit(main(sys.argv))
