"""Property -> units / harnesses / stated assumptions.  Units are /verif/units/<name>.vrs."""

UNIT_NOTES = {
    "satloc": "C09 last_sat_location_precompile on its real body: no index out of range for any call data / transaction contents; satoshi sums modelled as the wrapping additions the release profile executes (N39); deferred initialisations given an arbitrary initial value (N38)",
    "handlers": "C19/C05/C15/C16 indexer-facing handlers without await (brc20_deposit, withdraw, deploy, call, transact, finalise_block) and load_brc20_mint_tx / load_brc20_burn_tx on their real bodies; engine entry points are sites whose preconditions compare what is handed on with what was supplied",
    "rawblock": "C06 RawBlock::new: the receipts closure and the transactions closure lifted (N10-lift, lift_wrap) and proved field by field against the stored TxReceiptED / TxED; alloy consensus types as plain records with alloy's public field names",
    "txstore": "C06/C05/C08 finalise_block's closure (N10-lift): what is stored for the block and in which order; tail of add_tx_to_block's closure (N10-lift): values handed to set_tx_receipt (cumulative gas, first log index, hash, index, nonce, gas limit) and the advance of LastBlockInfo (waiting count, gas, log index); the EVM run before it is dropped (its output and trace are parameters)",
    "rawtx": "C08 what a signed raw transaction turns into: TxInfo::{from_inscription, from_raw_transaction, from_saved_transaction, to_address_optional} and get_info_from_raw_tx on their real bodies (alloy RLP decoding, signature recovery and keccak as uninterpreted functions of their inputs)",
    "codec_trace": "C14 record codec of the recursive TraceED (enc / dec read off the real impls, N37); Vec<TraceED> is an assumed leaf here",
    "dbslot": "C09 engine database slot: the three closures that run the EVM (read_contract, read_contract_multi, add_tx_to_block) lifted into functions; mem::take ... mem::swap puts the database back on every exit path",
    "codec": "L1 codecs against injected enc/dec (and the constructors TxED::new / TxReceiptED::new): real impl bodies of u8, Option<T>, (T,U), Vec<T> (=> codec_ok / codec_law lemmas); BlockHistoryCacheData<V> encode/decode bodies with map level round-trip lemmas; record codecs AccountInfoED, LogED, TxED, TxReceiptED with enc / dec read off the real impls on every run (N37) and the generated law lemmas prop_record_<S>",
    "scalars": "L5 scalar kernels: get_gas_limit, get_inscription_byte_len, get_evm_spec, use_rlp_hash_for_tx_hash, generate_block_hash (+ lemma: parked transactions keep at most their allowance)",
    "precompile": "C09 build_lock_script of the locked-pkscript helper: panic-freedom for every pkscript and lock count",
    "evmctx": "C19 engine/evm.rs get_evm over shim structs with revm's public field names",
    "engine": "L5 control skeletons of engine/engine.rs (SharedData sequential, closures -> guarded mutation sites N10): require_no_waiting_txes, validate_next_tx (closure inlined), commit_to_db, reorg, clear_caches, mine_blocks, add_raw_tx_to_block",
    "payload": "C15/C09/C05 api/types.rs: decode_bytes_from_inscription_data, decode_zstd_into_bytes, Base64Bytes::value, RawBytes::value, select_bytes + encoding-independence lemma",
    "configdb": "C20 global/database.rs: ConfigDatabase::{get,set,flush,validate} over the DB shim and validate_config_database with the file system as uninterpreted predicates",
    "auth": "C12 server/auth.rs: validate_call / validate_notification / HttpNonBlockingAuth::{allow,new,validate} + per-method obligations generated from api.rs on every run",
    "dbfacade": "L4 Brc20ProgDatabase against the L3 CONTRACT FILES (tables opaque): heights, stamped setters, require_block_does_not_exist, set_block_hash, commit_changes, clear_caches, reorg",
    "blockdb": "L3 block-keyed table BlockDatabase<V>: get/set/commit/clear_cache/last_key/reorg over the DB shim (view = cache over disk)",
    "table": "L3 versioned table BlockCachedDatabase<K,V,C> over the DB shim: latest/set/unset/retrieve_cache/clear_cache (+commit/reorg/get_range/all)",
    "history": "L2 per-key history BlockHistoryCacheData<V>: new/latest/set/unset/reorg/is_old/remove_old_values against the abstract Map<u64,Option<V>> model",
}

COMMON_TRUST = ("Trusted: Verus/Z3/rustc; vstd's std specs; the prelude's assume_specification / external_body wrappers for std "
                "compositions (rules N4,N7,N8,N15-N20: the wrapper's executable body is the replaced std text); RocksDB as an ordered byte map "
                "with atomic, program-ordered writes (DB shim); type-parameter assumptions (structural ==, clone returns an equal value, codec_ok). "
                "Block heights < 2^63 is an explicit precondition. ")

PROPS = {
    "C01": {
        "units": ["history", "table", "blockdb", "dbfacade"],
        "kani": [],
        "level_text": "Function-by-function proof that an accepted rollback restores the state as of N on the storage kernel: per-key history (set/unset/prune/reorg, window lemmas), block tables (reorg truncates to <= N), facade reorg (depth guard exactly `max ever > 10 + N => Err and *final == *old`; one rolled-back conjunct per table, 12 + 3), every setter stamped with the next block height, recorded maximum monotone.",
        "level_note": COMMON_TRUST + "BlockCachedDatabase::reorg is proved against its real body (three loops; every key with a persisted or in-memory history is truncated, committed at N; lemma from truncation to the statement). Assumed: that a passing depth check implies every history holds a version <= N (precondition of facade reorg). Not covered: engine glue and RPC layer, revm's DatabaseCommit feeding the tables, comparison with a second fresh instance (replaced by value_at semantics).",
        "assumptions": [
            "facade reorg: `max_recorded <= 10 + N ==> every history has a version <= N` is a precondition (follows from pruning relative to the monotone recorded maximum; not yet proved as an invariant)",
            "engine/RPC layer, revm DatabaseCommit, closure bodies passed to SharedData are outside the kernel",
        ],
    },
    "C03": {
        "units": ["table", "blockdb", "dbfacade", "history"],
        "kani": [],
        "level_text": "Proof that commit points are unobservable on the storage kernel: table commit preserves cur(k) for every key (also on Err), block-table commit preserves view_at, commit_changes preserves every read of all 15 stores and empties all caches, clear_caches changes nothing persisted and resets the cached height; reads are functions of the merged view only.",
        "level_note": COMMON_TRUST + "`Stop and reopen` is the DB shim's assumption that a reopened store has the same byte map. Engine-level guards (commit only with no block under construction) are covered under C05.",
        "assumptions": ["reopen = same byte map (DB shim)"],
    },
    "C12": {
        "units": ["auth"],
        "kani": [],
        "level_text": "Proof of the decision kernel of authentication: validate_call/validate_notification return exactly `authorized || method not on the list` (an iff); the HTTP layer inserts the Authorized marker iff allow_all or the Authorization header equals the configured one and never rejects; new() never sets allow_all; the wiring in start_rpc_server (the two middleware arguments lifted out of the builder chain): with authentication enabled the HTTP layer is HttpNonBlockingAuth::new of the configured credentials (never allow()), missing credentials stop start-up, and the RPC layer is constructed with the INDEXER_METHODS list; the three middleware entry points on their real bodies: call forwards the request to the inner service iff it is permitted and otherwise answers 401 without forwarding, notification forwards iff permitted and otherwise drops it, batch filters every element at every position on its own (loop invariant over the whole batch: a permitted element or an earlier error is handed on unchanged, any other element is replaced by a 401 error before the batch is forwarded); per-method obligations regenerated from api.rs on every run: every RPC method is protected or on the statement's read-only allow-list, the 11 mutating methods named in the statement are protected one by one.",
        "level_note": "Assumed: jsonrpsee Request/Notification/Extensions and hyper headers as opaque shims with uninterpreted observers; HashSet<String>::contains(&str) and Option<&str> equality wrappers (N21, N22); base64/format! of the header value not modelled. jsonrpsee's Batch/BatchEntry/MethodResponse/ErrorObject as small structural shims and `ResponseFuture::ready(..)` / `ResponseFuture::future(self.service.x(..))` rewritten to a `Handed` enum that records what is answered at once and what is forwarded (N36). Not covered: the body of RpcAuthMiddleware::new (collect into the HashSet), that the two layers are installed on the server builder (set_http_middleware / set_rpc_middleware), that jsonrpsee executes a method only when the inner service receives it (`state unchanged after refusal` rests on that).",
        "assumptions": [
            "jsonrpsee/hyper request types are opaque shims (extensions().get::<Authorized>(), method_name(), headers().get(..), extensions_mut().insert(..))",
            "jsonrpsee executes a method only when the inner RpcService receives the call / notification / Ok batch entry; Batch::iter_mut walks the entries in order (N36)",
            "installation of the two layers on the jsonrpsee server builder is outside the kernel (their arguments are inside)",
            "the method-list obligations are syntactic: api.rs `#[method(name=..)]` attributes and the INDEXER_METHODS literal are re-read on every run",
        ],
    },
    "C13": {
        "units": ["history", "table", "blockdb", "codec"],
        "kani": [],
        "level_text": "Proof against an abstract Map model written from the statement: per-key history functional postconditions (set_spec / truncated / pruned) + lemmas (window preserved, rollback restores, <= 11 versions) and the whole-trace theorem prop_model_trace: for every sequence of writes, deletes and rollbacks that the contracts admit, the pruned history and a never-pruned per-block model answer the same at every block of the 10-block window below the highest block ever written; table latest/set/unset/commit/retrieve_cache/clear_cache/reorg/get_range/all (range and full scans: complete, duplicate-free, in encoded-key order, values = what reads return; rollback: every key reads its value as of N and the window below N is preserved); block table get/set/commit/last_key/reorg with loop invariants and termination.",
        "level_note": COMMON_TRUST + "Every function of the three files is proved against its real body; the iteration primitives of RocksDB and HashMap/HashSet/sort are trusted wrappers (N9, N16, N28, N33).",
        "assumptions": ["RocksDB iterators return every entry >= start in ascending byte order and do not fail mid-scan (N16)"],
    },
    "C16": {
        "units": ["scalars"],
        "kani": [],
        "level_text": "Verus discharges, for all u64 inputs, functional postconditions on the real get_gas_limit / get_inscription_byte_len (allowance = min(len*12000, u64::MAX); inverse = g/12000) plus the lemma that the inverse never grants more than the stored allowance. Narrow: first sentence of the statement only.",
        "level_note": "Assumed: vstd spec of saturating_mul, assumed spec of saturating_div, Z3/Verus/rustc. Not covered: receipts' gas, out-of-gas atomicity (revm), eth_estimateGas sufficiency (async + revm).",
        "assumptions": [
            "only the first sentence of the statement is decided (allowance = 12000 gas per byte, saturating, and its inverse for parked transactions)",
            "not covered: gas recorded in receipts, out-of-gas atomicity (revm), eth_estimateGas sufficiency (async handler around revm)",
            "u64::saturating_div has an assumed specification (a / b for b != 0); saturating_mul is specified by vstd",
        ],
    },
}

PROPS["C20"] = {
    "units": ["configdb"],
    "kani": [],
    "level_text": "Proof on the real functions: ConfigDatabase::validate returns Ok iff the stored value exists and equals the given one (missing record => Err); get prefers the in-memory row, set writes through; validate_config_database reaches Ok only with all four settings (DB_VERSION, PROTOCOL_VERSION, BITCOIN_RPC_NETWORK, EVM_RECORD_TRACES) recorded and equal to the running configuration, whether just written (fresh directory) or validated; and, over an uninterpreted model of the directory at entry (fs_exists / fs_nonempty / fs_config = the rows of the config database on disk): a NON-EMPTY directory whose recorded configuration lacks or differs in any of the four settings - including a directory with data and no configuration at all - makes the function return Err; start() on its real body (async -> fn): the data tables of a directory are opened only after validate_config_database succeeded for that directory; versions pinned (7 / 2).",
    "level_note": "Assumed: file system predicates (exists, is_dir, read_dir, join) uninterpreted, read_dir().next() answers fs_nonempty, create_dir_all of a missing directory creates an empty one; ConfigDatabase::new opens the rows that are on disk (fs_config); String codec injective on text (axiom; proved for the byte-vector codec in unit codec); HashMap<String,String> keyed by text through trusted wrappers (N23); decimal/bool to_string opaque. Not covered: `an identical configuration always reopens successfully` beyond the absence of I/O errors.",
    "assumptions": [
        "file system and RocksDB behave as the shims say; I/O errors make the function return Err (allowed by the property: start-up fails)",
        "lazy_static key/value literals are re-read from config.rs on every run (rule N6)",
    ],
}

PROPS["C15"] = {
    "units": ["payload", "handlers"],
    "kani": [],
    "level_text": "Proof on the real decoder, for every input string: no panic (no precondition on the request-controlled argument), the result never exceeds CALLDATA_LIMIT, and it is exactly the payload the published format describes (strip from the first '=', base64 no-pad, first byte selects raw/nada/zstd); select_bytes accepts exactly one of the two fields and feeds the decoded bytes on; lemma: the base64 field carrying the published encoding of the bytes of the hex field yields the same bytes; the handlers brc20_deploy / brc20_call / brc20_transact (unit handlers) hand the engine exactly the bytes select_bytes returned (empty if the selected field decodes to nothing), whichever field they came from.",
    "level_note": "Assumed dependency contracts (external crates): base64 decode/encode inverse and '='-free alphabet, nada decode_with_limit bounded and inverse of encode, zstd decompress bounded by the buffer and inverse of compress, frame header consistent with content, alloy Bytes::from_hex a function of the text. ",
    "assumptions": [
        "base64 / nada / zstd-safe / hex crates behave as inverse pairs with the stated bounds (assumed, listed in the unit)",
    ],
}

PROPS["C18"] = {
    "units": ["dbfacade", "table", "handlers"],
    "kani": [],
    "level_text": "Proof on the real Brc20ProgDatabase::get_logs (three nested loops with invariants, termination): ranges wider than 6 blocks are refused; otherwise the result equals, as a sequence, the matching logs of the receipts of the range scan [key(from,0), key(to+1,0)) in entry order and log order, with the filter written from the statement (address equal if given; per position: null wildcard, single value equal, list = alternatives, null inside a list matches nothing); parse_block_number on its real body: the tags latest / safe / finalized mean the latest height, pending the next one, earliest 0, a 0x prefix a hexadecimal and anything else a decimal number, for every string without panic.",
    "level_note": COMMON_TRUST + "The range scan is the table's get_range contract (complete, duplicate-free, encoded-key order), proved against the real body in unit table; key order = (block, index) order is the U128 codec order lemma (C14). Rule N28 turns the two `for` loops that use `continue` into index loops (Verus has no `continue` in for-loops). Requires from <= to (a reversed range relies on wrapping arithmetic of the release profile and is refused as too large). Not covered: GetLogsFilter::topics_as_b256 (iterator chains), the handler eth_get_logs (closures over self), log contents produced by revm.",
    "assumptions": [
        "from <= to and heights < 2^63 are preconditions",
        "N28: `for x in vec` with `continue` rewritten to an index loop cloning the element",
    ],
}

PROPS["C02"] = {
    "units": ["scalars", "dbfacade", "table", "history", "blockdb"],
    "kani": [],
    "level_text": "Functional postconditions `result == pure function of the arguments` on the consensus-path kernels: gas allowance and its inverse, fork schedule (Prague from 923369 / 275000, RLP hash from 929000) with the constants pinned, generate_block_hash, the (block,index) key, eth_getLogs output as a sequence (order included) over the range scan contract, scan results in encoded-key order; DB_VERSION/PROTOCOL_VERSION pinned under C20. A result that depended on HashMap iteration order could not satisfy these postconditions (that is how D4/D5 were found).",
    "level_note": COMMON_TRUST + "keccak/merkle/bloom are uninterpreted (determinism inside those libraries assumed); revm, serde_json field order, trace string sorting (closure), generate_block/generate_raw_block bodies (merkle, bloom, revm types) are not under contract; ",
    "assumptions": ["revm / alloy / serde determinism", "generate_block and generate_raw_block bodies not under contract"],
}
PROPS["C04"] = {
    "units": ["table", "blockdb", "dbfacade", "history"],
    "kani": [],
    "level_text": "Write-order kernel only: inside BlockCachedDatabase::commit the history row of a key is (asserted) on disk before its latest-value row is written, with a loop invariant that rows of untouched keys are unchanged and commit preserves every read also on Err; commit_changes makes the three block-keyed stores durable (asserted) before the first versioned table is committed; BlockDatabase::reorg bounds its deletions by its own last_key and never invents a row on Err.",
    "level_note": COMMON_TRUST + "Narrow: a crash point is an intermediate state; only the two intermediate assertions and the per-function Err postconditions are proved. NOT covered: the composition over 15 tables into `reopen + reorg(D) yields the state as of D`, ConfigDatabase write-through, RocksDB's own atomicity and WAL (assumed: each put/delete atomic and durable in program order), crashes inside reorg beyond commit.",
    "assumptions": ["each put/delete is atomic and durable in program order (DB shim)", "multi-table recovery is argued in DESIGN.md, not checked"],
}
PROPS["C05"] = {
    "units": ["engine", "dbfacade", "payload", "txstore", "handlers", "table", "blockdb"],
    "kani": [],
    "level_text": "Proof of the rejection kernel: validate_next_tx (closure inlined) accepts iff tx_idx equals the number of transactions in the block, timestamp/hash equal those of the block under construction, and the block does not exist; commit_to_db / reorg / mine_blocks / finalise_block / add_tx_to_block reach their store mutation sites only behind those guards (site preconditions, rule N10); set_block_hash / set_tx_receipt: an existing hash or height gives Err and *final == *old; select_bytes accepts exactly one of the two encodings, and the handlers brc20_deploy / call / transact refuse a request before the engine is reached when it fails (both fields, none) or when the pkscript is not hex; the count of transactions waiting to be finalised advances by exactly one per stored transaction (tail of add_tx_to_block's closure, unit txstore), which is what validate_next_tx and finalise_block compare the supplied index / count with.",
    "level_note": COMMON_TRUST + "SharedData is modelled sequentially; closure bodies handed to write_fn (EVM run, receipt bookkeeping) are replaced by guarded sites, so `leaves the instance exactly as it was` is NOT proved for errors raised after partial execution inside those closures (revm). Handlers in rpc_server.rs are async and outside the kernel.",
    "assumptions": ["closure bodies passed to SharedData::write_fn are outside the proof (N10)", "sequential model of SharedData"],
}
PROPS["C06"] = {
    "units": ["dbfacade", "scalars", "engine", "txstore", "rawblock", "table", "blockdb", "codec"],
    "kani": [],
    "level_text": "Proof on Brc20ProgDatabase::set_tx_receipt: after Ok the transaction row, the receipt row, the (block,index)->hash row and the inscription->hash row all carry the same hash, block hash, block number and index; set_block_hash: number->hash and hash->number invert each other; LogED::new_vec: log indexes run contiguously from the start index and every log carries its transaction's hash, index, block hash and number; get_block_tx_count = number of (block,index) rows of the block; every point getter (get_tx_by_hash, get_tx_hash_by_block_number_and_index, get_tx_hash_by_block_hash_and_index, get_tx_hash_by_inscription_id, get_tx_trace, get_account_info, get_account_memory, get_code, get_inscription_id_by_contract_address, get_block, get_raw_block_by_number) serves the current row of the table its setter writes, under the same key, and set_block / set_raw_block store under the block's own number; generate_block on its real body: the block lists exactly the transaction hashes recorded under (block, 0), (block, 1), .. in index order, its count field is their number, it carries the number and hash it was generated for, its parent is the recorded hash of the previous block (zero for block 0) and a missing parent is an error; add_tx_to_block stores transaction, receipt and trace under get_tx_hash(tx, account nonce) (site precondition) and get_tx_hash is the keccak of sender, nonce, target, data (functional postcondition); the tail of add_tx_to_block's closure (lifted, unit txstore): the receipt is stored with the block's running gas total INCLUDING this transaction as cumulative gas and with the block's running log count BEFORE it as first log index, under the hash / index / number / nonce / gas limit of this transaction; afterwards the running totals have advanced by exactly this transaction (one more waiting transaction, gas, logs), and the receipt handed back is the one the store serves; finalise_block's closure (lifted, unit txstore): the block record stored under the number is the one generated for exactly the supplied hash / number / timestamp and the gas total of the block being built, the raw block is the raw form of that record, and the hash - which is what makes the block visible - is recorded last, after the record, the raw block and the pruning of the pool; the two closures of RawBlock::new (lifted, unit rawblock): a raw receipt carries the stored receipt's cumulative gas, status, logs and bloom, a raw transaction the stored nonce, target, value, input, chain id, gas limit and signature; eth_getLogs order (C18).",
    "level_note": COMMON_TRUST + "Narrow. Rule N29 keeps only the index arguments of TxReceiptED::new / TxED::new (the other arguments are revm/alloy values). NOT covered: bloom and merkle root (dropped from generate_block by N13: uninterpreted libraries), the header literal of RawBlock::new and the RLP encoding itself (alloy), the generate_raw_block body.",
    "assumptions": ["N29: in units dbfacade / engine the constructors TxED::new / TxReceiptED::new are reduced to their index arguments (what they store is proved in unit codec); BlockResponseED::new assumed to store hash / count / number / transactions / parent hash in the fields of that name", "generate_raw_block not under contract", "U128ED compares as its encoding does (Kani u128ed_order)"],
}
PROPS["C08"] = {
    "units": ["engine", "dbfacade", "rawtx", "txstore", "table"],
    "kani": [],
    "level_text": "Proof on the real get_info_from_raw_tx (an undecodable transaction is rejected, one whose chain id is absent or not the configured one is ignored, otherwise the result is exactly the decoded transaction: signer = address recovered from the signing hash, nonce = signed nonce, hash = keccak of the raw bytes or the signing hash as the fork schedule selects) and the three TxInfo constructors; on the real add_raw_tx_to_block control skeleton: a transaction is parked only with account_nonce < nonce < account_nonce + 10, executed first only with nonce == account nonce (or none), every drained transaction is younger than 10 blocks and receives transaction index = index of the call + receipts produced so far (loop invariant), nonces advance by one per receipt and every drained transaction carries exactly the account's next nonce (site precondition over what the pool lookup returned); drain completeness over a ghost model of the pending pool (map (signer, nonce) -> parked transaction, answered by the lookup site, updated at the removal site): whenever the call returns receipts, nothing is left waiting at the signer's next nonce - the loop ran every consecutive successor or dropped an expired one - and the entry removed is the one that was looked up; every successful finalise prunes the pool for the finalised height before the block becomes visible (finalise_block's closure, lifted in unit txstore); clear_txpool drops a parked transaction iff it has no arrival block or arrived >= 10 blocks ago and leaves every other one untouched.",
    "level_note": COMMON_TRUST + "Closures are guarded sites (N10); revm's own nonce check, signature recovery, chain-id filter (alloy) and txpool_content are outside. Termination of the drain loop is not proved (it ends when the pool has no next nonce).",
    "assumptions": ["nonces, transaction indexes and arrival blocks are < 2^63", "drain-loop termination not proved", "pool invariant assumed at entry: nothing is parked at or beyond account nonce + 10 (parking precondition + monotone account nonces)", "a parked transaction is stored under its own signer and nonce (pool lookup shim)"],
}
PROPS["C09"] = {
    "units": ["payload", "precompile", "scalars", "engine", "dbfacade", "blockdb", "dbslot", "handlers", "satloc"],
    "kani": [],
    "level_text": "Panic-freedom and termination, with NO precondition on request-controlled arguments, of the extracted request-facing functions: payload decoders (index, slice, arithmetic), select_bytes, build_lock_script (any pkscript / lock count), last_sat_location_precompile (any call data and any transaction contents, including client-supplied override transactions: every index into inputs and outputs is in range, both loops are entered and left within bounds), gas helpers, fork schedule, mine_blocks (count 0, loop bound), block-table loops with decreases, get_logs loops, parse_block_number (the slice `&number[2..]` is reached only behind the 0x-prefix test), the indexer-facing handlers without await; reachable panic!/expect/index are preconditions Verus must discharge; the engine's database slot: in the three closures that run the EVM (lifted, N10-lift) the database moved out with mem::take is swapped back on every exit path, including the early return when a call of an eth_callMany batch is rejected.",
    "level_note": COMMON_TRUST + "State-dependent ranges (heights, nonces < 2^63; from <= to in get_logs) are explicit preconditions. NOT covered: EVM execution (revm; assumed to keep owning the database it was given and not to panic), async handlers, ABI decoding (sol! macro), bitcoin / bip322 crates, decoders fed from the database.",
    "assumptions": ["heights/nonces < 2^63", "external crates (revm, alloy sol types, bitcoin, bip322) outside the kernel"],
}
PROPS["C16"]["units"] = ["scalars", "engine", "handlers"]
PROPS["C16"]["level_text"] = PROPS["C16"]["level_text"] + " In add_tx_to_block the value handed to the EVM site and to the receipt is get_gas_limit(inscription_byte_len) (site precondition); a parked transaction replayed by the drain of add_raw_tx_to_block is given an inscription length whose allowance is at most the allowance recorded when it was parked (site precondition gas_limit_spec(byte_len) <= stored gas)."
PROPS["C19"] = {
    "units": ["evmctx", "scalars", "dbfacade", "engine", "dbslot", "handlers", "table"],
    "kani": [],
    "level_text": "Proof on the real get_evm body over shim structs carrying revm's public field names: block number, timestamp, prevrandao = supplied hash, basefee 0, difficulty 0, chain id (cfg and tx) = configured, gas price 0, value 0, spec = fork schedule of the height, Bitcoin txid handed to the precompile provider = the supplied one; fork schedule table proved in unit scalars; the execution site of add_tx_to_block's closure (lifted, unit dbslot): the EVM the transaction runs in was built by get_evm for exactly the block number, block hash, timestamp and Bitcoin txid supplied with THIS call, and the transaction environment carries the deriving sender as caller, the supplied target and data, and the nonce and gas limit computed for it; the indexer-facing handlers brc20_deposit / withdraw / deploy / call / transact / finalise_block on their real bodies (unit handlers; `async fn` -> `fn`, they contain no await): each hands the engine the NEXT block height and exactly the timestamp, index, block hash, inscription length and Bitcoin txid it was given; deposits and withdrawals run as the indexer address against the BRC20 controller with a zero txid (load_brc20_mint_tx / load_brc20_burn_tx on their real bodies), deploys and calls as the address derived from the supplied pkscript; BLOCKHASH: the revm Database::block_hash callback on its real body answers with the recorded hash of that block (committed or not), zero if there is none, and changes nothing; the Bitcoin txid of a PARKED transaction: set_pending_tx records the supplied txid under the transaction's hash, stamped like the pool entry itself (stamped(..) on both tables, whatever was recorded under that hash before), get_pending_tx_op_return_tx_id reads the current row of that table, and the drain of add_raw_tx_to_block hands what it read for the parked transaction's hash to the execution site.",
    "level_note": "Narrow. Rule N32 replaces the generic revm type expressions of the signature and of one `let` by the shim names; field assignments are verbatim. Assumed: Context::new defaults, Evm::new_with_inspector keeps ctx and precompiles, BRC20Precompiles::new stores the txid. NOT covered: that revm reports tx.caller as both CALLER and ORIGIN, the environment of read-only calls (read_contract*), the 256-block window of BLOCKHASH (enforced by revm), deposits/withdrawals running as the indexer address.",
    "assumptions": ["revm constructors keep what they are given (shim contracts)", "N32: generic revm types replaced by shim structs with the same field names"],
}

PROPS["C14"] = {
    "units": ["codec", "codec_trace"],
    "kani": ["u64_roundtrip", "u64_order", "u32_roundtrip", "u64ed_matches_u64", "option_u64_roundtrip", "tuple_u64_u32_roundtrip", "u8ed_roundtrip", "b256ed_roundtrip", "addressed_roundtrip"],
    "kani_thorough": ["u128ed_roundtrip", "u128ed_order", "nidx_key_order", "u256ed_roundtrip", "u512ed_roundtrip"],
    "level_text": "Verus (unbounded): real impl bodies of the u8 / Option<T> / (T,U) codecs satisfy `encode appends exactly enc(v)` and `decode returns dec(bytes, offset)`, with the round-trip law codec_ok (decode of an encoding anywhere inside a buffer gives the value back and consumes exactly its bytes: lossless and self-delimiting) proved generically; Vec<T> (u32 length prefix) encode/decode bodies verified as trait impls, BlockHistoryCacheData<V> encode/decode bodies verified with round-trip lemmas over version maps; the law with a domain (codec_law: every storable value decodes back to itself, consuming exactly its bytes, anywhere in a buffer) proved for Option / pair / Vec and, by rule N37, for the record codecs AccountInfoED, LogED, TxED, TxReceiptED and TraceED: their abstract encoding and decoder are READ OFF the real Encode / Decode impls statement by statement on every run, both real bodies are verified against them, and the law is a generated lemma prop_record_<S> that fails as soon as encoder and decoder disagree in field list, field order or field type (a consistent change of both keeps verifying); the constructors TxED::new and TxReceiptED::new on their real bodies: every argument lands in the field of the same name and the fields the decoder re-creates instead of reading (chain id, transaction type, effective gas price) are set to exactly what the decoder re-creates, so the values the module stores are in the domain of the law. Kani: complete CBMC proofs (all 2^64 / 2^128 values, unwinding assertions on) on the REAL codec files included by path: u64/u32 big-endian round trip with exact consumption inside a larger buffer, u64 order and injectivity of the encoding, U64ED encoding identical to u64 (block tables mix them), U128ED round trip and order, (block,index) composite key order, Option tag byte, tuple concatenation, and the fixed-width leaf codecs of the records: U8ED, B256ED, AddressED (quick) and U256ED, U512ED (thorough) round trip inside a larger buffer with exact consumption, for every bit pattern.",
    "level_note": "Trusted: CBMC 6.11 / Kani 0.68 models of alloc and core, alloy-primitives 1.4.1 Uint::{as_limbs,from_limbs,from} as compiled. Harnesses are loop-free or bounded by the constant encoding width with unwinding assertions, hence complete, not bounded. In the Verus unit u32/u64 are assumed impls over be4/be8 (their laws are the Kani results). In the record lemmas the leaf codecs (U64ED, U8ED, U256ED, B256ED, B2048ED, AddressED, BytesED, String) are assumed to satisfy the law (the fixed-width ones are the Kani results); Vec values are identified with their element sequences (axiom_vec_ext / axiom_vec_of: vstd gives Vec no extensional equality); TraceED.calls: Vec<TraceED> is an assumed leaf in unit codec_trace (recursive type: its law is the induction hypothesis); fields a decoder re-creates instead of reading (TxED.chain_id / tx_type, TxReceiptED.effective_gas_price / transaction_type) are part of the domain of the law (the value must carry what the decoder re-creates; TxED::new / TxReceiptED::new are proved to establish it). NOT covered: [T;N], BlockResponseED (Either + decode through ::new), RawBlock (alloy RLP), BytecodeED, BytesED / String bodies, U256/U512/Address/B256 bodies, the serde/JSON half of the statement.",
    "assumptions": ["leaf codecs of the records (U64ED, U8ED, U256ED, B256ED, B2048ED, AddressED, BytesED, String) assumed to satisfy codec_law; fixed-width ones proved by Kani", "Vec values identified with their element sequences (axiom_vec_ext, axiom_vec_of)", "law of Vec<TraceED> assumed in unit codec_trace (induction hypothesis of a recursive type)", "BlockResponseED, RawBlock, BytecodeED, [T;N] and wide integer / byte-array bodies not under proof", "serde/JSON round trip outside both tools", "history round trip is at map level (no extensional equality for BTreeMap in vstd)"],
}

NOT_APPLICABLE = {
    "C07": "conservation is a property of Solidity/EVM bytecode executed by revm; neither Verus nor Kani has a semantics for it, no contract within reach can state it",
    "C10": "non-mutation is the frame condition of revm's replay/transact_one inside async fns; it could only be assumed, not proved, on code within reach",
    "C11": "quantifies over thread schedules; Kani has no threads, Verus would need permission types threaded through the code (different code)",
    "C17": "relational equivalence of two entry points of an external interpreter over arbitrary bytecode; no contract on code within reach expresses it",
}
PENDING = []
for _p in PENDING:
    if _p not in PROPS:
        NOT_APPLICABLE[_p] = "check under construction in this commit (DESIGN.md 0); claimed once its units discharge"
