"""Property -> units / harnesses / stated assumptions.  Units are /verif/units/<name>.vrs."""

UNIT_NOTES = {
    "dbfacade": "L4 Brc20ProgDatabase against the L3 CONTRACT FILES (tables opaque): heights, stamped setters, require_block_does_not_exist, set_block_hash, commit_changes, clear_caches, reorg",
    "blockdb": "L3 block-keyed table BlockDatabase<V>: get/set/commit/clear_cache/last_key/reorg over the DB shim (view = cache over disk)",
    "table": "L3 versioned table BlockCachedDatabase<K,V,C> over the DB shim: latest/set/unset/retrieve_cache/clear_cache (+commit/reorg/get_range/all)",
    "history": "L2 per-key history BlockHistoryCacheData<V>: new/latest/set/unset/reorg/is_old/remove_old_values against the abstract Map<u64,Option<V>> model",
    "scalars": "L5 scalar kernels: get_gas_limit, get_inscription_byte_len (+ lemma: parked transactions keep at most their allowance)",
}

PROPS = {
    "C01": {
        "units": ["history", "table", "blockdb", "dbfacade"],
        "kani": [],
        "level": "proof",
        "assumptions": [],
    },
    "C03": {
        "units": ["table", "blockdb", "dbfacade"],
        "kani": [],
        "level": "proof",
        "assumptions": [],
    },
    "C13": {
        "units": ["history", "table", "blockdb"],
        "kani": [],
        "level": "proof",
        "assumptions": [],
    },
    "C16": {
        "units": ["scalars"],
        "kani": [],
        "level": "proof",
        "assumptions": [
            "only the first sentence of the statement is decided (allowance = 12000 gas per byte, saturating, and its inverse for parked transactions)",
            "not covered: gas recorded in receipts, out-of-gas atomicity (revm), eth_estimateGas sufficiency (async handler around revm)",
            "u64::saturating_div has an assumed specification (a / b for b != 0); saturating_mul is specified by vstd",
        ],
    },
}
