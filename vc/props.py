"""Property -> units / harnesses / stated assumptions.  Units are /verif/units/<name>.vrs."""

UNIT_NOTES = {
    "engine": "L5 control skeletons of engine/engine.rs (SharedData sequential, closures -> guarded mutation sites N10): require_no_waiting_txes, validate_next_tx (closure inlined), commit_to_db, reorg, clear_caches, mine_blocks, add_raw_tx_to_block",
    "payload": "C15/C09/C05 api/types.rs: decode_bytes_from_inscription_data, decode_zstd_into_bytes, Base64Bytes::value, RawBytes::value, select_bytes + encoding-independence lemma",
    "configdb": "C20 global/database.rs: ConfigDatabase::{get,set,flush,validate} over the DB shim and validate_config_database with the file system as uninterpreted predicates",
    "auth": "C12 server/auth.rs: validate_call / validate_notification / HttpNonBlockingAuth::{allow,new,validate} + per-method obligations generated from api.rs on every run",
    "dbfacade": "L4 Brc20ProgDatabase against the L3 CONTRACT FILES (tables opaque): heights, stamped setters, require_block_does_not_exist, set_block_hash, commit_changes, clear_caches, reorg",
    "blockdb": "L3 block-keyed table BlockDatabase<V>: get/set/commit/clear_cache/last_key/reorg over the DB shim (view = cache over disk)",
    "table": "L3 versioned table BlockCachedDatabase<K,V,C> over the DB shim: latest/set/unset/retrieve_cache/clear_cache (+commit/reorg/get_range/all)",
    "history": "L2 per-key history BlockHistoryCacheData<V>: new/latest/set/unset/reorg/is_old/remove_old_values against the abstract Map<u64,Option<V>> model",
    "scalars": "L5 scalar kernels: get_gas_limit, get_inscription_byte_len (+ lemma: parked transactions keep at most their allowance)",
}

COMMON_TRUST = ("Trusted: Verus/Z3/rustc; vstd's std specs; the prelude's assume_specification / external_body wrappers for std "
                "compositions (rules N4,N7,N8,N15-N20: the wrapper's executable body is the replaced std text); RocksDB as an ordered byte map "
                "with atomic, program-ordered writes (DB shim); type-parameter assumptions (structural ==, clone returns an equal value, codec_ok). "
                "Block heights < 2^63 is an explicit precondition. ")

PROPS = {
    "C01": {
        "units": ["history", "table", "blockdb", "dbfacade"],
        "kani": [],
        "level_text": "Function-by-function proof that an accepted rollback restores the state as of N on the storage kernel: per-key history (set/unset/prune/reorg, window lemmas), block tables (reorg truncates to <= N), facade reorg (depth guard exactly `max ever > 10 + N => Err and *final == *old`; one rolled-back conjunct per table, 12 + 3), every setter stamped with the next block height, recorded maximum monotone.",
        "level_note": COMMON_TRUST + "Assumed contracts: BlockCachedDatabase::reorg (body not yet under proof; contract in contracts/table/reorg.contract), and that a passing depth check implies every history holds a version <= N (precondition of facade reorg). Not covered: engine glue and RPC layer, revm's DatabaseCommit feeding the tables, comparison with a second fresh instance (replaced by value_at semantics).",
        "assumptions": [
            "BlockCachedDatabase::reorg contract assumed (stage 2)",
            "facade reorg: `max_recorded <= 10 + N ==> every history has a version <= N` is a precondition (follows from pruning relative to the monotone recorded maximum; not yet proved as an invariant)",
            "engine/RPC layer, revm DatabaseCommit, closure bodies passed to SharedData are outside the kernel",
        ],
    },
    "C03": {
        "units": ["table", "blockdb", "dbfacade"],
        "kani": [],
        "level_text": "Proof that commit points are unobservable on the storage kernel: table commit preserves cur(k) for every key (also on Err), block-table commit preserves view_at, commit_changes preserves every read of all 15 stores and empties all caches, clear_caches changes nothing persisted and resets the cached height; reads are functions of the merged view only.",
        "level_note": COMMON_TRUST + "`Stop and reopen` is the DB shim's assumption that a reopened store has the same byte map. Engine-level guards (commit only with no block under construction) are covered under C05. Assumed contracts: table get_range/all/reorg.",
        "assumptions": ["reopen = same byte map (DB shim)", "table get_range/all contracts assumed (stage 2)"],
    },
    "C12": {
        "units": ["auth"],
        "kani": [],
        "level_text": "Proof of the decision kernel of authentication: validate_call/validate_notification return exactly `authorized || method not on the list` (an iff); the HTTP layer inserts the Authorized marker iff allow_all or the Authorization header equals the configured one and never rejects; new() never sets allow_all; per-method obligations regenerated from api.rs on every run: every RPC method is protected or on the statement's read-only allow-list, the 11 mutating methods named in the statement are protected one by one.",
        "level_note": "Assumed: jsonrpsee Request/Notification/Extensions and hyper headers as opaque shims with uninterpreted observers; HashSet<String>::contains(&str) and Option<&str> equality wrappers (N21, N22); base64/format! of the header value not modelled. Not covered: RpcServiceT::{call,notification,batch} (return impl Future around jsonrpsee internals), the middleware wiring in start_rpc_server, `state unchanged after refusal`.",
        "assumptions": [
            "jsonrpsee/hyper request types are opaque shims (extensions().get::<Authorized>(), method_name(), headers().get(..), extensions_mut().insert(..))",
            "call/notification/batch of RpcServiceT and the wiring in rpc_server.rs are outside the kernel",
            "the method-list obligations are syntactic: api.rs `#[method(name=..)]` attributes and the INDEXER_METHODS literal are re-read on every run",
        ],
    },
    "C13": {
        "units": ["history", "table", "blockdb"],
        "kani": [],
        "level_text": "Proof against an abstract Map model written from the statement: per-key history functional postconditions (set_spec / truncated / pruned) + lemmas (window preserved, rollback restores, <= 11 versions); table latest/set/unset/commit/retrieve_cache/clear_cache; block table get/set/commit/last_key/reorg with loop invariants and termination.",
        "level_note": COMMON_TRUST + "Assumed contracts: BlockCachedDatabase::{reorg,get_range,all} (bodies not yet under proof).",
        "assumptions": ["BlockCachedDatabase::{reorg,get_range,all} contracts assumed (stage 2)"],
    },
    "C16": {
        "units": ["scalars"],
        "kani": [],
        "level_text": "Verus discharges, for all u64 inputs, functional postconditions on the real get_gas_limit / get_inscription_byte_len (allowance = min(len*12000, u64::MAX); inverse = g/12000) plus the lemma that the inverse never grants more than the stored allowance. Narrow: first sentence of the statement only.",
        "level_note": "Assumed: vstd spec of saturating_mul, assumed spec of saturating_div, Z3/Verus/rustc. Not covered: receipts' gas, out-of-gas atomicity (revm), eth_estimateGas sufficiency (async + revm).",
        "assumptions": [
            "only the first sentence of the statement is decided (allowance = 12000 gas per byte, saturating, and its inverse for parked transactions)",
            "not covered: gas recorded in receipts, out-of-gas atomicity (revm), eth_estimateGas sufficiency (async handler around revm)",
            "u64::saturating_div has an assumed specification (a / b for b != 0); saturating_mul is specified by vstd",
        ],
    },
}

PROPS["C20"] = {
    "units": ["configdb"],
    "kani": [],
    "level_text": "Proof on the real functions: ConfigDatabase::validate returns Ok iff the stored value exists and equals the given one (missing record => Err); get prefers the in-memory row, set writes through; validate_config_database reaches Ok only with all four settings (DB_VERSION, PROTOCOL_VERSION, BITCOIN_RPC_NETWORK, EVM_RECORD_TRACES) recorded and equal to the running configuration, whether just written (fresh directory) or validated; versions pinned (7 / 2).",
    "level_note": "Assumed: file system predicates (exists, is_dir, read_dir) uninterpreted; ConfigDatabase::new opens whatever is on disk; String codec injective on text (axiom; proved for the byte-vector codec in unit codec); HashMap<String,String> keyed by text through trusted wrappers (N23); decimal/bool to_string opaque. Not covered: start() calling the check before opening the engine (async), `an identical configuration always reopens successfully` beyond the absence of I/O errors.",
    "assumptions": [
        "file system and RocksDB behave as the shims say; I/O errors make the function return Err (allowed by the property: start-up fails)",
        "lazy_static key/value literals are re-read from config.rs on every run (rule N6)",
    ],
}

PROPS["C15"] = {
    "units": ["payload"],
    "kani": [],
    "level_text": "Proof on the real decoder, for every input string: no panic (no precondition on the request-controlled argument), the result never exceeds CALLDATA_LIMIT, and it is exactly the payload the published format describes (strip from the first '=', base64 no-pad, first byte selects raw/nada/zstd); select_bytes accepts exactly one of the two fields and feeds the decoded bytes on; lemma: the base64 field carrying the published encoding of the bytes of the hex field yields the same bytes.",
    "level_note": "Assumed dependency contracts (external crates): base64 decode/encode inverse and '='-free alphabet, nada decode_with_limit bounded and inverse of encode, zstd decompress bounded by the buffer and inverse of compress, frame header consistent with content, alloy Bytes::from_hex a function of the text. Not covered: the encoder Base64Bytes::from_bytes body (chooses the shortest of three encodings through the same crates), handlers passing the bytes on unchanged.",
    "assumptions": [
        "base64 / nada / zstd-safe / hex crates behave as inverse pairs with the stated bounds (assumed, listed in the unit)",
        "Base64Bytes::from_bytes (encoder) body not under contract; the round trip is proved for the published format it emits",
    ],
}

PROPS["C18"] = {
    "units": ["dbfacade"],
    "kani": [],
    "level_text": "Proof on the real Brc20ProgDatabase::get_logs (three nested loops with invariants, termination): ranges wider than 6 blocks are refused; otherwise the result equals, as a sequence, the matching logs of the receipts of the range scan [key(from,0), key(to+1,0)) in entry order and log order, with the filter written from the statement (address equal if given; per position: null wildcard, single value equal, list = alternatives, null inside a list matches nothing).",
    "level_note": COMMON_TRUST + "The range scan itself is the table's get_range CONTRACT (complete, duplicate-free, encoded-key order; body of get_range not yet under proof) and key order = (block, index) order is the U128 codec order lemma (C14). Rule N28 turns the two `for` loops that use `continue` into index loops (Verus has no `continue` in for-loops). Requires from <= to (a reversed range relies on wrapping arithmetic of the release profile and is refused as too large). Not covered: parse_block_number, the async handler, log contents produced by revm.",
    "assumptions": [
        "BlockCachedDatabase::get_range contract assumed (stage 2)",
        "from <= to and heights < 2^63 are preconditions",
        "N28: `for x in vec` with `continue` rewritten to an index loop cloning the element",
    ],
}

NOT_APPLICABLE = {
    "C07": "conservation is a property of Solidity/EVM bytecode executed by revm; neither Verus nor Kani has a semantics for it, no contract within reach can state it",
    "C10": "non-mutation is the frame condition of revm's replay/transact_one inside async fns; it could only be assumed, not proved, on code within reach",
    "C11": "quantifies over thread schedules; Kani has no threads, Verus would need permission types threaded through the code (different code)",
    "C17": "relational equivalence of two entry points of an external interpreter over arbitrary bytecode; no contract on code within reach expresses it",
}
PENDING = ["C02", "C04", "C05", "C06", "C08", "C09", "C14", "C19"]
for _p in PENDING:
    if _p not in PROPS:
        NOT_APPLICABLE[_p] = "check under construction in this commit (DESIGN.md 0); claimed once its units discharge"
