#!/usr/bin/env python3
"""Store a confirmed seeded change under /verif/seeded/<name>/.

usage: store_seed.py <tag> <Cxx> <name> <change> <needs> <confirmed> <detected_by> [expect_exit]

Takes patch.diff / demo.diff / notes.md from /tmp/<tag>_<Cxx>_out and the confirmation log from
/tmp/confirm/<Cxx>.log (my own run of the suite with the change + demonstration, then with the source change reverted).
"""
import json, os, shutil, sys

tag, pid, name, change, needs, confirmed, detected = sys.argv[1:8]
expect = int(sys.argv[8]) if len(sys.argv) > 8 else 1
src = "/tmp/%s_%s_out" % (tag, pid)
dst = "/verif/seeded/%s" % name
os.makedirs(dst, exist_ok=True)
for f in ("patch.diff", "demo.diff", "notes.md"):
    shutil.copy(os.path.join(src, f), os.path.join(dst, f))
log = "/tmp/confirm/%s.log" % pid
if os.path.exists(log):
    shutil.copy(log, os.path.join(dst, "confirm.log"))
meta = {
    "id": name,
    "property": pid,
    "origin": "independent sub-agent (given only the property text and a scratch worktree), round %s" % tag,
    "change": change,
    "needs_to_manifest": needs,
    "confirmed_by_me": confirmed,
    "detected_by": detected,
    "expected_exit": expect,
    "ran": ["git -C /repo apply /verif/seeded/%s/patch.diff" % name, "./check %s -> exit %d" % (pid, expect), "git -C /repo checkout -- ."],
}
json.dump(meta, open(os.path.join(dst, "meta.json"), "w"), indent=1)
print("stored", dst)
