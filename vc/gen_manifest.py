#!/usr/bin/env python3
"""Regenerate /verif/MANIFEST.json from vc/props.py (claimed checks) and NOT_APPLICABLE below."""
import json
import os
import sys

HERE = os.path.dirname(os.path.abspath(__file__))
sys.path.insert(0, HERE)
from props import PROPS, NOT_APPLICABLE  # noqa: E402

TECH = "contract-based deductive verification: Verus (Z3) on real functions re-extracted from /repo each run"
checks = []
for pid in sorted(PROPS):
    P = PROPS[pid]
    tech = TECH + ("; Kani/CBMC harnesses #[path]-including the real files" if P.get("kani") or P.get("kani_thorough") else "")
    gen = [u for u in P["units"] if u in ("locks", "serde")]
    if gen:
        tech += ("; in unit(s) %s the obligations are GENERATED per call site / per field from a syntactic scan of the source on every run "
                 "(lock regions of engine.rs, #[serde(..)] attributes) and then discharged by Verus - the scan, not a proof over the "
                 "function bodies, supplies those facts" % ", ".join(gen))
    checks.append({
        "property_id": pid,
        "quick_cmd": "./check %s --tier quick" % pid,
        "thorough_cmd": "./check %s --tier thorough" % pid,
        "evidence_file": "/verif/evidence/%s.json" % pid,
        "replay_cmd_template": "./check %s --replay {path}" % pid,
        "engine": "vc",
        "level_claimed": {"category": "proof", "text": P["level_text"], "design_ref": "DESIGN.md 4/%s" % pid},
        "level_note": P["level_note"],
        "technique": tech,
    })
m = {
    "version": 1,
    "setup_cmd": "./check --setup",
    "hooks": {
        "guard": "brc20_prog_verif",
        "enable": "none needed: both back ends read /repo's source files in place on every run (Verus on re-extracted text, Kani through #[path] includes); no hook commits exist",
        "baseline_off_cmd": "cd /repo && cargo nextest run --workspace --no-fail-fast --tool-config-file pb:/w/lib/nextest.toml --profile pb --test-threads 8 --offline",
        "source_commits": [],
        "add_only": True,
    },
    "engines": [{"name": "vc", "path": "/verif/vc", "serves_properties": sorted(PROPS),
                 "kind_free_text": "extract real fn text from /repo each run -> inject contracts (units/*.vrs, contracts/*) -> Verus; Kani harness crate #[path]-including the real files for fixed-width code"}],
    "checks": checks,
    "not_applicable": [{"property_id": k, "reason": v} for k, v in sorted(NOT_APPLICABLE.items())],
    "notes": "Exit codes of ./check: 0 held, 1 VIOLATION (line printed), 2 UNDECIDED (extraction anchor lost / unsupported construct / rlimit / unstable query) - never an alarm. Genuine defects found and repaired: see known_findings.json, findings/ and DESIGN.md section 10.5; independently seeded breaking changes and which check catches which: seeded/ and DESIGN.md section 10.7; self-test: python3 vc/seeded_regress.py.",
}
json.dump(m, open(os.path.join(os.path.dirname(HERE), "MANIFEST.json"), "w"), indent=1)
print("MANIFEST.json: %d checks, %d not applicable" % (len(checks), len(m["not_applicable"])))
