import json, os, subprocess, sys
props = {json.loads(l)['id']: json.loads(l) for l in open('/verif/properties.jsonl')}
tag = sys.argv[1]
FOCUS = {}
if os.path.exists("/verif/vc/seedfocus_%s.json" % tag):
    FOCUS = json.load(open("/verif/vc/seedfocus_%s.json" % tag))
for arg in sys.argv[2:]:
    pid, cu = arg.split(":")[:2]
    focus = FOCUS.get(pid, "")
    p = props[pid]
    wt = "/tmp/%s_%s" % (tag, pid)
    out = "/tmp/%s_%s_out" % (tag, pid)
    os.makedirs(out, exist_ok=True)
    subprocess.run(["git","-C","/repo","worktree","add","--detach",wt,"HEAD"],check=True,capture_output=True)
    files = ", ".join(p['anchors']['files'])
    prompt = f"""You are testing the robustness of a Rust codebase: bestinslot-xyz/brc20-programmable-module (a revm-based EVM execution engine for BRC20 indexers, with a reorg-capable block-history cache over RocksDB and a JSON-RPC server).

You have your own scratch git worktree of the repository at {wt} (work ONLY there; never touch /repo or /verif, never read anything under /verif). No network is available; the dependencies are already compiled in the shared target dir /repo/target. ALWAYS run cargo from {wt} exactly in this form (other people build other worktrees into the same target dir at the same time, and this form keeps your artefacts apart from theirs):

    touch src/lib.rs <every source file you changed>; CARGO_TARGET_DIR=/repo/target cargo test --offline --config 'profile.test.package."brc20-prog".codegen-units={cu}' <test selection>

(another process may hold the cargo lock for a few minutes - just wait; if a test result looks as if it came from somebody else's code, touch your files and run again).

The property under test (this text is all you get about it):

{pid}: {p['title']}.
{p['statement']}

(Files the property is anchored in: {files}. The integration tests under tests/ show how to drive the module through its RPC client and the tests modules of the source files show how to drive the engine and the database directly.)

YOUR TASK: produce ONE small source change (a realistic bug a developer could introduce: an off-by-one, a comparison turned round, a check on the wrong variable, a forgotten update, a wrong order of two writes, a condition dropped in one branch only, a value taken from the wrong place, two cooperating edits that each look fine alone ...) to the NON-TEST code of the repository that BREAKS this property, while the crate still compiles and the EXISTING tests still pass. Prefer a change in a LESS obvious place than the most central function of the property - a helper, a secondary code path, a rarely taken branch, one table or one field among many - and one that needs something specific to manifest (a particular distance, count, ordering, boundary value, or sequence of calls), NOT one that ordinary use would expose at once, and not a change to test code, comments or error messages.

Many people have been given this same task before you and most of them picked the same few lines. So before you choose, write down (in notes.md, under `Candidates`) at least SIX candidate changes in at least FOUR different functions spread over at least THREE files, and then pick the one that you think is LEAST likely to have occurred to anybody else - a function far from the centre of the property that the property nevertheless depends on.

{("To spread the changes over the code base, place yours in this area if at all possible (fall back to your own choice only if nothing there can break the property): " + focus) if focus else ""}

Then write a demonstration: a new Rust test (in the style of the tests/ directory, or in the tests module of the most relevant source file) that FAILS with your change and PASSES without it.

Steps:
1. Read the code, design the change, apply it in {wt}.
2. Confirm the existing tests still pass WITH the change: at least the `--lib` tests (about 155 tests), and the integration tests that touch the code you changed; run the whole suite if you can (about 6 minutes; the two tests that need a Bitcoin node fail even on the clean tree).
3. Add the demonstration test, confirm it FAILS with the change; revert only the source change and confirm the demonstration PASSES without it; then restore the change.
4. Write the results to {out}/:
   - patch.diff : the source change ONLY (git diff of the non-test change), applicable with `git apply` to a clean checkout
   - demo.diff : the demonstration test ONLY, as a git diff applicable to a clean checkout
   - notes.md : what the change is, why it breaks the property, what exactly is needed for it to manifest, and the exact commands you ran with their outcome.
   - at the end of notes.md, under the heading `Seen on the way`, list any place where the UNCHANGED code already seems to break the property (say for each whether you ran it or only read it); do not change those places.
Leave the worktree with both the change and the demo applied. Report back a 5-line summary.
"""
    open(out+"/prompt.txt","w").write(prompt)
print("ok")
