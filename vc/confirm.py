"""Confirmation / replay: consulted only AFTER the verifier failed an obligation, and only to produce or re-run a
concrete failing input on the real code.  It never decides a property on its own."""
import os
import re
import subprocess

VERIF = os.path.dirname(os.path.dirname(os.path.abspath(__file__)))


def find_input(pid, failures, build_dir):
    # Kani failures carry their own counterexample (concrete playback); Verus gives none.
    for f in failures:
        if f.get("concrete"):
            return f["concrete"]
    return None


def replay(pid, j):
    inp = j.get("input") or {}
    if inp.get("kind") == "kani-concrete-playback":
        kdir = os.path.join(VERIF, "kani")
        test = inp["test"]
        name = re.search(r"fn (kani_concrete_playback_\w+)", test).group(1)
        body = "use crate::harnesses::*;\n" + test + "\n"
        path = os.path.join(kdir, "src", "playback.rs")
        keep = open(path).read()
        open(path, "w").write(body)
        env = dict(os.environ)
        env["CARGO_NET_OFFLINE"] = "true"
        env["CARGO_TARGET_DIR"] = os.path.join(VERIF, "build", "kani-target")
        try:
            p = subprocess.run(["cargo", "kani", "playback", "-Z", "concrete-playback", "--", name], cwd=kdir, env=env,
                               capture_output=True, text=True, timeout=3600)
        finally:
            open(path, "w").write(keep)
        out = p.stdout + p.stderr
        print(out[-3000:])
        if "could not compile" in out:
            print("replay could not be built")
            return 2
        failed = "FAILED" in out or "panicked" in out
        print("replay of %s on the real code: %s" % (inp.get("harness"), "assertion FAILS (violation reproduced)" if failed else "passes (not reproduced)"))
        return 1 if failed else 0
    print("no replay runner for this obligation")
    return 1
