"""Confirmation runner: consulted only AFTER the verifier failed an obligation, and only to produce a
concrete failing input that replays on the real code.  It never decides a property on its own."""


def find_input(pid, failures, build_dir):
    return None


def replay(pid, j):
    print("no replay runner for this obligation")
    return 1
