"""Item scanner for Rust source text (stdlib only).

Finds fn / impl / struct / const / trait items by name with brace matching that understands
strings, raw strings, byte strings, char literals, lifetimes, nested block comments and line comments.
Items are addressed by (optional impl-header regex, kind, name) -- never by line number.
"""
import hashlib
import re


class ScanError(Exception):
    pass


def code_mask(text):
    """Return a string of the same length where comments and the *contents* of string / char
    literals are replaced by spaces (newlines kept), so that brace matching and regex search see
    code only.  Offsets are identical to the original text."""
    out = list(text)
    n = len(text)
    i = 0

    def blank(a, b):
        for k in range(a, b):
            if out[k] != "\n":
                out[k] = " "

    while i < n:
        c = text[i]
        nxt = text[i + 1] if i + 1 < n else ""
        if c == "/" and nxt == "/":
            j = text.find("\n", i)
            if j < 0:
                j = n
            blank(i, j)
            i = j
        elif c == "/" and nxt == "*":
            depth = 1
            j = i + 2
            while j < n and depth > 0:
                if text.startswith("/*", j):
                    depth += 1
                    j += 2
                elif text.startswith("*/", j):
                    depth -= 1
                    j += 2
                else:
                    j += 1
            blank(i, j)
            i = j
        elif c == '"' or (c in "br" and _is_str_prefix(text, i)):
            # string, raw string, byte string
            j = i
            while text[j] in "br":
                j += 1
            hashes = 0
            raw = "r" in text[i:j]
            while text[j] == "#":
                hashes += 1
                j += 1
            if text[j] != '"':
                i += 1
                continue
            j += 1
            start = j
            if raw:
                term = '"' + "#" * hashes
                k = text.find(term, j)
                if k < 0:
                    raise ScanError("unterminated raw string")
                blank(start, k)
                i = k + len(term)
            else:
                while j < n and text[j] != '"':
                    if text[j] == "\\":
                        j += 2
                    else:
                        j += 1
                blank(start, j)
                i = j + 1
        elif c == "'":
            # char literal or lifetime
            if nxt == "\\":
                j = text.find("'", i + 2)
                # '\'' case
                if text[i + 2] == "'" :
                    j = text.find("'", i + 3)
                blank(i + 1, j)
                i = j + 1
            elif i + 2 < n and text[i + 2] == "'":
                blank(i + 1, i + 2)
                i += 3
            else:
                i += 1  # lifetime
        else:
            i += 1
    return "".join(out)


def _is_str_prefix(text, i):
    # b"..", r"..", r#".."#, br"..", b'..' is handled as char elsewhere
    if i > 0 and (text[i - 1].isalnum() or text[i - 1] == "_"):
        return False
    j = i
    while j < len(text) and text[j] in "br" and j - i < 2:
        j += 1
    k = j
    while k < len(text) and text[k] == "#":
        k += 1
    if k < len(text) and text[k] == '"':
        if k > j and "r" not in text[i:j]:
            return False
        return True
    return False


def match_brace(mask, open_pos):
    assert mask[open_pos] == "{"
    depth = 0
    for k in range(open_pos, len(mask)):
        ch = mask[k]
        if ch == "{":
            depth += 1
        elif ch == "}":
            depth -= 1
            if depth == 0:
                return k
    raise ScanError("unbalanced braces")


def match_delim(mask, open_pos):
    pairs = {"(": ")", "[": "]", "{": "}"}
    o = mask[open_pos]
    c = pairs[o]
    depth = 0
    for k in range(open_pos, len(mask)):
        ch = mask[k]
        if ch == o:
            depth += 1
        elif ch == c:
            depth -= 1
            if depth == 0:
                return k
    raise ScanError("unbalanced delimiter")


def enclosing_blocks(mask, pos):
    """list of (header_text_start, open_brace_pos) for each block that contains pos (outermost first)"""
    stack = []
    last_boundary = [0]
    for k in range(0, pos):
        ch = mask[k]
        if ch == "{":
            stack.append((last_boundary[-1], k))
            last_boundary.append(k + 1)
        elif ch == "}":
            if stack:
                stack.pop()
                last_boundary.pop()
            last_boundary[-1] = k + 1
        elif ch == ";":
            last_boundary[-1] = k + 1
    return stack


def _item_start(text, mask, kw_pos):
    """start of the item whose keyword (fn/struct/...) is at kw_pos: go back over `pub`, `pub(crate)`,
    `const`, `async`, `unsafe` qualifiers on the same logical item, not over attributes or doc comments."""
    k = kw_pos
    # walk back to previous boundary in mask
    j = k - 1
    while j >= 0 and mask[j] not in ";{}":
        j -= 1
    seg_start = j + 1
    seg = mask[seg_start:kw_pos]
    # drop attributes #[...] (they are in code mask) : take text after the last ']' that closes an attribute
    # simple approach: find last newline-separated chunk that has only qualifiers
    m = re.search(r"((?:pub(?:\s*\([^)]*\))?\s+|const\s+|async\s+|unsafe\s+|default\s+)*)$", seg)
    return seg_start + m.start(1)


def find_item(text, kind, name, impl_re=None, mask=None, allow_tests=False):
    """kind in {fn, struct, enum, const, static, trait, impl, type}.  Returns dict with
    start, end (offsets, end exclusive), sig (text before body), body (incl. braces) or None, line."""
    if mask is None:
        mask = code_mask(text)
    if kind == "impl":
        pat = re.compile(r"\bimpl\b")
    else:
        pat = re.compile(r"\b%s\s+%s\b" % (re.escape(kind), re.escape(name)))
    hits = []
    for m in pat.finditer(mask):
        blocks = enclosing_blocks(mask, m.start())
        headers = [mask[a:b] for (a, b) in blocks]
        if not allow_tests and any(re.search(r"\bmod\s+tests\b", h) for h in headers):
            continue
        if kind == "impl":
            # name is a regex on the impl header
            ob = mask.find("{", m.start())
            header = " ".join(mask[m.start():ob].split())
            if not re.search(name, header):
                continue
            if blocks:
                continue
        else:
            if impl_re is not None:
                ok = False
                for h in headers:
                    hh = " ".join(h.split())
                    if re.search(r"\b(impl|trait)\b", hh) and re.search(impl_re, hh):
                        ok = True
                if not ok:
                    continue
            elif kind == "fn":
                # free function: not inside an impl/trait block (may be in a plain mod)
                if any(re.search(r"\b(impl|trait)\b", h) for h in headers):
                    continue
        hits.append(m)
    if not hits:
        raise ScanError("item not found: %s %s%s" % (kind, name, " in impl ~ %s" % impl_re if impl_re else ""))
    if len(hits) > 1:
        raise ScanError("item ambiguous (%d matches): %s %s%s" % (len(hits), kind, name, " in impl ~ %s" % impl_re if impl_re else ""))
    m = hits[0]
    start = _item_start(text, mask, m.start())
    # end: first ';' or '{' at depth 0 of () [] after keyword
    k = m.end()
    depth = 0
    angle = 0
    body = None
    while k < len(mask):
        ch = mask[k]
        if ch in "([":
            depth += 1
        elif ch in ")]":
            depth -= 1
        elif ch == "{" and depth == 0:
            e = match_brace(mask, k)
            sig = text[start:k]
            body = text[k:e + 1]
            end = e + 1
            break
        elif ch == ";" and depth == 0:
            sig = text[start:k]
            end = k + 1
            break
        k += 1
    else:
        raise ScanError("item end not found: %s %s" % (kind, name))
    # struct Foo(..); tuple struct: handled by ';' ; struct with where + braces handled by '{'
    full = text[start:end]
    return {
        "kind": kind,
        "name": name,
        "start": start,
        "end": end,
        "sig": sig,
        "body": body,
        "text": full,
        "line": text.count("\n", 0, start) + 1,
        "sha256": hashlib.sha256(full.encode()).hexdigest(),
    }


def find_loops(body, mask=None):
    """Loops in a function body in source order: list of dicts(kw, kw_pos, brace_pos, end_pos)."""
    if mask is None:
        mask = code_mask(body)
    res = []
    for m in re.finditer(r"\b(for|while|loop)\b", mask):
        kw = m.group(1)
        if kw == "for":
            rest = mask[m.end():m.end() + 2]
            if rest.lstrip().startswith("<"):
                continue  # for<'a>
            # must have ` in ` before the block
        k = m.end()
        depth = 0
        found = None
        while k < len(mask):
            ch = mask[k]
            if ch in "([":
                depth += 1
            elif ch in ")]":
                depth -= 1
            elif ch == "{" and depth == 0:
                found = k
                break
            elif ch == ";" and depth == 0:
                break
            k += 1
        if found is None:
            continue
        if kw == "for" and not re.search(r"\bin\b", mask[m.end():found]):
            continue
        res.append({"kw": kw, "kw_pos": m.start(), "brace_pos": found, "end_pos": match_brace(mask, found)})
    return res


def find_closures(body, mask=None):
    """Closures `|args| expr` / `|args| { .. }` / `move |..|` in source order (only those that follow '(' or ',' or '=')."""
    if mask is None:
        mask = code_mask(body)
    res = []
    for m in re.finditer(r"(?<=[(,=])\s*(move\s+)?\|", mask):
        bar1 = m.end() - 1
        bar2 = mask.find("|", bar1 + 1)
        if bar2 < 0:
            continue
        res.append({"start": m.start() + len(m.group(0)) - len(m.group(0).lstrip()), "bar1": bar1, "bar2": bar2})
    return res
