"""contracts/facade_spec.vrs was generated once from the table list of Brc20ProgDatabase (12 versioned tables,
3 block tables, the configuration store, the cached height) and is now maintained by hand; this file documents that.
The per-table conjunct lists (all_some, types_ok, tables_inv, all_bounded_by, all_covered, caches_empty, same_except)
must list every field of the struct: unit dbfacade extracts the REAL struct, so a new table field makes
`same_except`/`all_some` incomplete only in the sense that contracts say nothing about it."""
