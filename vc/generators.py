"""Generated obligations: text produced on every run from /repo's source, inserted by `//@generate <name>`."""
import os
import re

from rustscan import code_mask

REPO = os.environ.get("VERIF_REPO", "/repo")


class GenError(Exception):
    pass


# C12: the read-only allow-list, written from the property statement (public read methods keep working):
READONLY_PREFIXES = ["eth_", "net_", "web3_", "txpool_", "debug_trace", "debug_getRaw", "brc20_get"]
READONLY_EXACT = ["brc20_balance", "brc20_version"]
# the mutating / indexer-only methods the statement names one by one
MUST_PROTECT = ["brc20_mine", "brc20_deploy", "brc20_call", "brc20_transact", "brc20_deposit", "brc20_withdraw",
                "brc20_initialise", "brc20_finaliseBlock", "brc20_reorg", "brc20_commitToDatabase", "brc20_clearCaches"]


def auth_methods():
    api = open(os.path.join(REPO, "src/api/api.rs")).read()
    mask = code_mask(api)
    m = re.search(r"INDEXER_METHODS\s*:\s*Vec<String>\s*=\s*vec!\[", mask)
    if not m:
        raise GenError("INDEXER_METHODS literal not found in src/api/api.rs")
    end = mask.index("]", m.end())
    lit = api[m.end():end]
    # strip comments
    lit_nc = re.sub(r"//[^\n]*", "", lit)
    protected = re.findall(r'"([^"]+)"\s*\.to_string\(\)', lit_nc)
    if not protected:
        raise GenError("INDEXER_METHODS literal is empty or has an unexpected shape")
    methods = re.findall(r'#\[method\(name\s*=\s*"([^"]+)"', api)
    if len(methods) < 10:
        raise GenError("method table of api.rs not found")
    out = ["// ---- generated from src/api/api.rs on this run: %d RPC methods, %d protected ----" % (len(methods), len(protected))]

    def ident(n):
        return re.sub(r"\W", "_", n)
    for n in sorted(set(methods) | set(MUST_PROTECT)):
        out.append("pub open spec fn protected_%s() -> bool { %s }  // membership in the extracted INDEXER_METHODS literal" % (ident(n), "true" if n in protected else "false"))
        ro = n in READONLY_EXACT or any(n.startswith(p) for p in READONLY_PREFIXES)
        out.append("pub open spec fn readonly_%s() -> bool { %s }  // allow-list taken from the property statement" % (ident(n), "true" if ro else "false"))
    out.append("")
    out.append("// every RPC method is either on the protected list or on the statement's read-only allow-list")
    out.append("proof fn prop_every_method_classified() {")
    for n in methods:
        out.append("    assert(protected_%s() || readonly_%s());  // %s" % (ident(n), ident(n), n))
    out.append("}")
    out.append("")
    out.append("// the mutating methods named in the statement are protected, one by one")
    out.append("proof fn prop_mutating_methods_protected() {")
    for n in MUST_PROTECT:
        out.append("    assert(protected_%s());  // %s" % (ident(n), n))
    out.append("}")
    out.append("")
    out.append("// a method the statement calls public is not needlessly locked away from explorers")
    out.append("proof fn prop_public_reads_stay_public() {")
    for n in ["eth_call", "eth_getLogs", "eth_blockNumber", "eth_getTransactionReceipt", "brc20_balance", "txpool_content", "debug_traceTransaction"]:
        out.append("    assert(!protected_%s());  // %s" % (ident(n), n))
    out.append("}")
    return "\n".join(out) + "\n"


def config_statics():
    """N6: lazy_static literals of global/config.rs that the configuration check uses -> consts with the same values"""
    cfg = open(os.path.join(REPO, "src/global/config.rs")).read()
    out = ["// ---- generated from the lazy_static! block of src/global/config.rs on this run (rule N6) ----"]
    for name in ["DB_VERSION_KEY", "PROTOCOL_VERSION_KEY", "BITCOIN_RPC_NETWORK_KEY", "EVM_RECORD_TRACES_KEY"]:
        m = re.search(r"static ref %s: String = (\"[^\"]*\")\.to_string\(\);" % name, cfg)
        if not m:
            raise GenError("lazy_static %s not found" % name)
        out.append("pub const %s: &'static str = %s;" % (name, m.group(1)))
    for name in ["DB_VERSION", "PROTOCOL_VERSION"]:
        m = re.search(r"static ref %s: u32 = (\d+);" % name, cfg)
        if not m:
            raise GenError("lazy_static %s not found" % name)
        out.append("pub const %s: u32 = %s;" % (name, m.group(1)))
    # distinctness of the four key texts (needed so that writing one key does not disturb another): witnesses computed here
    keys = {}
    for ln in out:
        m = re.match(r"pub const (\w+_KEY): &'static str = \"([^\"]*)\";", ln)
        if m:
            keys[m.group(1)] = m.group(2)
    out.append("pub proof fn lemma_config_keys_distinct()")
    names = sorted(keys)
    pairs = [(a, b) for i, a in enumerate(names) for b in names[i + 1:]]
    out.append("    ensures " + ", ".join("%s@ != %s@" % (a, b) for a, b in pairs) + ",")
    out.append("{")
    for a in names:
        out.append("    reveal_strlit(\"%s\");" % keys[a])
    for a, b in pairs:
        ka, kb = keys[a], keys[b]
        if ka == kb:
            raise GenError("configuration keys %s and %s have the same text" % (a, b))
        if len(ka) != len(kb):
            out.append("    assert(%s@.len() != %s@.len());" % (a, b))
        else:
            i = [k for k in range(len(ka)) if ka[k] != kb[k]][0]
            out.append("    assert(%s@[%d] != %s@[%d]);" % (a, i, b, i))
    out.append("}")
    return "\n".join(out) + "\n"


GENERATORS = {"auth_methods": auth_methods, "config_statics": config_statics}
