"""Generated obligations: text produced on every run from /repo's source, inserted by `//@generate <name>`."""
import os
import re

from rustscan import code_mask

REPO = os.environ.get("VERIF_REPO", "/repo")


class GenError(Exception):
    pass


# C12: the read-only allow-list, written from the property statement (public read methods keep working):
READONLY_PREFIXES = ["eth_", "net_", "web3_", "txpool_", "debug_trace", "debug_getRaw", "brc20_get"]
READONLY_EXACT = ["brc20_balance", "brc20_version"]
# the mutating / indexer-only methods the statement names one by one
MUST_PROTECT = ["brc20_mine", "brc20_deploy", "brc20_call", "brc20_transact", "brc20_deposit", "brc20_withdraw",
                "brc20_initialise", "brc20_finaliseBlock", "brc20_reorg", "brc20_commitToDatabase", "brc20_clearCaches"]


def auth_methods():
    api = open(os.path.join(REPO, "src/api/api.rs")).read()
    mask = code_mask(api)
    m = re.search(r"INDEXER_METHODS\s*:\s*Vec<String>\s*=\s*vec!\[", mask)
    if not m:
        raise GenError("INDEXER_METHODS literal not found in src/api/api.rs")
    end = mask.index("]", m.end())
    lit = api[m.end():end]
    # strip comments
    lit_nc = re.sub(r"//[^\n]*", "", lit)
    protected = re.findall(r'"([^"]+)"\s*\.to_string\(\)', lit_nc)
    if not protected:
        raise GenError("INDEXER_METHODS literal is empty or has an unexpected shape")
    methods = re.findall(r'#\[method\(name\s*=\s*"([^"]+)"', api)
    if len(methods) < 10:
        raise GenError("method table of api.rs not found")
    # every alias is a method name of its own: jsonrpsee resolves it to the same handler, the middleware looks it up by name
    for attr in re.findall(r'#\[method\((.*?)\)\]', api, re.S):
        ma = re.search(r'aliases\s*=\s*\[(.*?)\]', attr, re.S)
        if ma:
            for al in re.findall(r'"([^"]+)"', ma.group(1)):
                if al not in methods:
                    methods.append(al)
    # names registered on the module by hand in the server code (`module.register_alias("new", "existing")`, register_method ..):
    # each is a method name of its own as far as the middleware is concerned
    sdir = os.path.join(REPO, "src/server")
    for fn_ in sorted(os.listdir(sdir)):
        if not fn_.endswith(".rs"):
            continue
        st = open(os.path.join(sdir, fn_)).read()
        k = st.find("#[cfg(test)]")
        if k >= 0:
            st = st[:k]
        st = re.sub(r"//[^\n]*", "", st)
        for mm in re.finditer(r"\.\s*register_(alias|method|async_method|blocking_method|subscription)\s*\(\s*([^,)]*)", st):
            lit = re.match(r'^"([^"]+)"$', mm.group(2).strip())
            if not lit:
                raise GenError("%s registers an RPC name that is not a string literal (%s)" % (fn_, mm.group(2).strip()[:40]))
            if lit.group(1) not in methods:
                methods.append(lit.group(1))
    # an attribute of the rpc macro that this reader does not know could register names it does not see: undecided, not a pass
    for attr in re.findall(r'#\[method\((.*?)\)\]', api, re.S):
        for key in re.findall(r'(\w+)\s*=', re.sub(r'"[^"]*"', '""', attr)):
            if key not in ("name", "aliases", "param_kind", "blocking", "raw_method", "with_extensions"):
                raise GenError("#[method(..)] attribute with an unknown key %r in api.rs" % key)
    out = ["// ---- generated from src/api/api.rs on this run: %d RPC methods, %d protected ----" % (len(methods), len(protected))]

    def ident(n):
        return re.sub(r"\W", "_", n)
    for n in sorted(set(methods) | set(MUST_PROTECT)):
        out.append("pub open spec fn protected_%s() -> bool { %s }  // membership in the extracted INDEXER_METHODS literal" % (ident(n), "true" if n in protected else "false"))
        ro = n in READONLY_EXACT or any(n.startswith(p) for p in READONLY_PREFIXES)
        out.append("pub open spec fn readonly_%s() -> bool { %s }  // allow-list taken from the property statement" % (ident(n), "true" if ro else "false"))
    out.append("")
    out.append("// every RPC method is either on the protected list or on the statement's read-only allow-list")
    out.append("proof fn prop_every_method_classified() {")
    for n in methods:
        out.append("    assert(protected_%s() || readonly_%s());  // %s" % (ident(n), ident(n), n))
    out.append("}")
    out.append("")
    out.append("// the mutating methods named in the statement are protected, one by one")
    out.append("proof fn prop_mutating_methods_protected() {")
    for n in MUST_PROTECT:
        out.append("    assert(protected_%s());  // %s" % (ident(n), n))
    out.append("}")
    out.append("")
    out.append("// a method the statement calls public is not needlessly locked away from explorers")
    out.append("proof fn prop_public_reads_stay_public() {")
    for n in ["eth_call", "eth_getLogs", "eth_blockNumber", "eth_getTransactionReceipt", "brc20_balance", "txpool_content", "debug_traceTransaction"]:
        out.append("    assert(!protected_%s());  // %s" % (ident(n), n))
    out.append("}")
    return "\n".join(out) + "\n"


def config_statics():
    """N6: lazy_static literals of global/config.rs that the configuration check uses -> consts with the same values"""
    cfg = open(os.path.join(REPO, "src/global/config.rs")).read()
    out = ["// ---- generated from the lazy_static! block of src/global/config.rs on this run (rule N6) ----"]
    for name in ["DB_VERSION_KEY", "PROTOCOL_VERSION_KEY", "BITCOIN_RPC_NETWORK_KEY", "EVM_RECORD_TRACES_KEY"]:
        m = re.search(r"static ref %s: String = (\"[^\"]*\")\.to_string\(\);" % name, cfg)
        if not m:
            raise GenError("lazy_static %s not found" % name)
        out.append("pub const %s: &'static str = %s;" % (name, m.group(1)))
    for name in ["DB_VERSION", "PROTOCOL_VERSION"]:
        m = re.search(r"static ref %s: u32 = (\d+);" % name, cfg)
        if not m:
            raise GenError("lazy_static %s not found" % name)
        out.append("pub const %s: u32 = %s;" % (name, m.group(1)))
    # distinctness of the four key texts (needed so that writing one key does not disturb another): witnesses computed here
    keys = {}
    for ln in out:
        m = re.match(r"pub const (\w+_KEY): &'static str = \"([^\"]*)\";", ln)
        if m:
            keys[m.group(1)] = m.group(2)
    out.append("pub proof fn lemma_config_keys_distinct()")
    names = sorted(keys)
    pairs = [(a, b) for i, a in enumerate(names) for b in names[i + 1:]]
    out.append("    ensures " + ", ".join("%s@ != %s@" % (a, b) for a, b in pairs) + ",")
    out.append("{")
    for a in names:
        out.append("    reveal_strlit(\"%s\");" % keys[a])
    for a, b in pairs:
        ka, kb = keys[a], keys[b]
        if ka == kb:
            raise GenError("configuration keys %s and %s have the same text" % (a, b))
        if len(ka) != len(kb):
            out.append("    assert(%s@.len() != %s@.len());" % (a, b))
        else:
            i = [k for k in range(len(ka)) if ka[k] != kb[k]][0]
            out.append("    assert(%s@[%d] != %s@[%d]);" % (a, i, b, i))
    out.append("}")
    return "\n".join(out) + "\n"



# ---------------------------------------------------------------------------------------------------------------------
# C14 record codecs (rule N37).  For a struct whose Encode impl is a sequence of `<expr>.encode(buffer);` statements and
# whose Decode impl is a sequence of `let (x, offset) = <T or Decode>::decode(bytes, offset)?;` statements followed by
# `Ok((S { .. }, offset))`, the abstract encoding `enc` and the abstract decoder `dec` are READ OFF the two real bodies
# (statement by statement), the two real bodies are extracted and verified against them, and the law of the statement
# (decode(encode(v)) == v, consuming exactly the bytes produced, anywhere in a buffer) is a generated lemma
# prop_record_<S>.  Nothing about the field order or the field list is written by hand: a change that keeps encoder and
# decoder consistent keeps verifying, one that makes them disagree fails the lemma.
# Any other statement shape raises GenError (=> UNDECIDED, never an alarm).
def _split_top(s, sep=","):
    out, depth, cur = [], 0, ""
    for ch in s:
        if ch in "([{<":
            depth += 1
        elif ch in ")]}>":
            depth -= 1
        if ch == sep and depth == 0:
            out.append(cur)
            cur = ""
        else:
            cur += ch
    if cur.strip():
        out.append(cur)
    return [x.strip() for x in out if x.strip()]


def _strip_comments(t):
    return re.sub(r"//[^\n]*", "", t)


def _norm_ty(t):
    t = re.sub(r"\s+", "", t)
    while t.startswith("<") and t.endswith(">"):
        t = t[1:-1]
    t = t.replace("::<", "<")
    return t


def _mangle(t):
    return re.sub(r"\W+", "_", t).strip("_")


def _record_parse(relfile, S):
    from rustscan import find_item
    text = open(os.path.join(REPO, relfile)).read()
    try:
        st = find_item(text, "struct", S)
        en = find_item(text, "fn", "encode", r"^impl Encode for %s\b" % S)
        de = find_item(text, "fn", "decode", r"^impl Decode for %s\b" % S)
    except Exception as e:
        raise GenError("record %s: %s" % (S, e))
    fields = []
    body = _strip_comments(st["body"])
    body = re.sub(r"#\[[^\]]*\]", "", body, flags=re.S)
    for f in _split_top(body.strip()[1:-1]):
        m = re.match(r"(?:pub(?:\([^)]*\))?\s+)?(\w+)\s*:\s*(.+)$", f, re.S)
        if not m:
            raise GenError("record %s: field not understood: %r" % (S, f))
        fields.append((m.group(1), _norm_ty(m.group(2))))
    ftype = dict(fields)
    # ---- encoder
    enc_items = []   # ("field", name, type) | ("const", expr, type)
    eb = _strip_comments(en["body"]).strip()[1:-1]
    # `let Left(x) = &self.f else { panic!(..); }; x.encode(buffer);` - the Left content of an Either field is what is written;
    # the panic makes `self.f is Left` the precondition of this encoder (the record is then emitted as free functions)
    eb = re.sub(r"let Left\((\w+)\) = &self\.(\w+) else \{\s*panic!\(\"[^\"]*\"\);\s*\};\s*\1\.encode\(buffer\);",
                r"self.\2.LEFT__.encode(buffer);", eb)
    for stmt in [x.strip() for x in eb.split(";") if x.strip()]:
        m = re.match(r"^self\.(\w+)\.LEFT__\.encode\(buffer\)$", stmt)
        if m:
            fty = ftype.get(m.group(1), "")
            m2 = re.match(r"^Either<(.+)>$", fty)
            parts = _split_top(m2.group(1)) if m2 else []
            if len(parts) != 2:
                raise GenError("record %s: field %s is matched against Left but is not an Either<A, B>" % (S, m.group(1)))
            enc_items.append(("left", m.group(1), _norm_ty(parts[0])))
            continue
        m = re.match(r"^self\.(\w+)\.encode\(buffer\)$", stmt)
        if m:
            if m.group(1) not in ftype:
                raise GenError("record %s: encode writes unknown field %s" % (S, m.group(1)))
            enc_items.append(("field", m.group(1), ftype[m.group(1)]))
            continue
        m = re.match(r"^(.+)\.encode\(buffer\)$", stmt, re.S)
        if m and "self" not in m.group(1):
            e = " ".join(m.group(1).split())
            m2 = re.match(r"^(\w+)::(new|zero)\(\)$", e)
            m3 = re.match(r"^Option::<(.+)>::None$", e)
            if m2:
                enc_items.append(("const", e, m2.group(1)))
            elif m3:
                enc_items.append(("none", e, "Option<%s>" % _norm_ty(m3.group(1))))
            else:
                raise GenError("record %s: constant of unsupported shape in encode: %r" % (S, e))
            continue
        raise GenError("record %s: encode statement of unsupported shape: %r" % (S, stmt))
    # ---- decoder
    dec_items = []   # ("bind", var, type|None) | ("skip", var, type)
    db = _strip_comments(de["body"]).strip()[1:-1].strip()
    k = db.rfind("Ok((")
    if k < 0:
        raise GenError("record %s: decode does not end in Ok((..))" % S)
    stmts, final = db[:k], db[k:]
    for stmt in [x.strip() for x in stmts.split(";") if x.strip()]:
        # `let (value, next_offset) = <T or Decode>::decode(bytes, some_offset)?;` - the offset identifiers are taken as written
        # (usually all `offset`, shadowed each time), so a decoder that threads them wrongly yields a spec that says so
        m = re.match(r"^let \((\w+), (\w+)\)(?:\s*:\s*\(([^;]+), usize\))? = (.+?)::decode\(bytes, (\w+)\)\?$", stmt, re.S)
        if not m:
            raise GenError("record %s: decode statement of unsupported shape: %r" % (S, stmt))
        var, offvar, ann, via, offexpr = m.group(1), m.group(2), m.group(3), m.group(4).strip(), m.group(5)
        ty = _norm_ty(ann) if ann else (None if via == "Decode" else _norm_ty(via))
        dec_items.append(("skip" if var.startswith("_") else "bind", var, ty, offvar, offexpr))
    m = re.match(r"^Ok\(\(\s*%s\s*\{(.*)\}\s*,\s*(\w+)\s*,?\s*\)\)$" % re.escape(S), final.strip(), re.S)
    mc = re.match(r"^Ok\(\(\s*%s::new\((.*)\)\s*,\s*(\w+)\s*,?\s*\)\)$" % re.escape(S), final.strip(), re.S)
    ctor = None
    lit = []  # (field, var|None, expr|None)   expr "LEFT__" = Either::Left(var)
    if m:
        final_off = m.group(2)
        for f in _split_top(m.group(1)):
            m2 = re.match(r"^(\w+)\s*:\s*(.+)$", f, re.S)
            if m2:
                lit.append((m2.group(1), None, " ".join(m2.group(2).split())))
            elif re.match(r"^\w+$", f):
                lit.append((f, f, None))
            else:
                raise GenError("record %s: struct literal entry not understood: %r" % (S, f))
    elif mc:
        # `Ok((S::new(a, b, ..), offset))`: the value is what the constructor builds from the decoded items; its literal is read
        # off the real `new` (a parameter used as written, a parameter wrapped in Either::Left, anything else a re-created field)
        final_off = mc.group(2)
        args = _split_top(mc.group(1))
        try:
            nw = find_item(text, "fn", "new", r"^impl %s\b" % S)
        except Exception as e:
            raise GenError("record %s: %s" % (S, e))
        msig = re.search(r"fn new\s*\((.*)\)\s*->\s*Self", _strip_comments(nw["sig"]), re.S)
        if not msig:
            raise GenError("record %s: signature of `new` not understood" % S)
        params = []
        for prm in _split_top(msig.group(1)):
            m2 = re.match(r"^(\w+)\s*:\s*(.+)$", prm, re.S)
            if not m2:
                raise GenError("record %s: parameter of `new` not understood: %r" % (S, prm))
            params.append((m2.group(1), _norm_ty(m2.group(2))))
        if len(args) != len(params) or not all(re.match(r"^\w+$", a) for a in args):
            raise GenError("record %s: decode calls `new` with arguments this reader does not understand" % S)
        arg_of = {pn: a for (pn, _), a in zip(params, args)}
        mb = re.match(r"^\{\s*Self\s*\{(.*)\}\s*\}$", _strip_comments(nw["body"]).strip(), re.S)
        if not mb:
            raise GenError("record %s: body of `new` is not a single `Self { .. }` literal" % S)
        for f in _split_top(mb.group(1)):
            m2 = re.match(r"^(\w+)\s*:\s*(.+)$", f, re.S)
            if m2:
                e = " ".join(m2.group(2).split())
                m3 = re.match(r"^(?:Either::)?Left\((\w+)\)$", e)
                if m3 and m3.group(1) in arg_of:
                    lit.append((m2.group(1), arg_of[m3.group(1)], "LEFT__"))
                elif re.match(r"^\w+$", e) and e in arg_of:
                    lit.append((m2.group(1), arg_of[e], None))
                else:
                    if any(re.search(r"\b%s\b" % re.escape(pn), e) for pn, _ in params):
                        raise GenError("record %s: `new` computes field %s from a parameter (%s)" % (S, m2.group(1), e))
                    lit.append((m2.group(1), None, e))
            elif re.match(r"^\w+$", f) and f in arg_of:
                lit.append((f, arg_of[f], None))
            else:
                raise GenError("record %s: entry of the literal of `new` not understood: %r" % (S, f))
        ctor = {"params": params, "args": args, "impl": r"^impl %s\b" % S}
    else:
        raise GenError("record %s: decode result of unsupported shape: %r" % (S, final[:80]))
    bound = {it[1] for it in dec_items if it[0] == "bind"}
    for (fld, var, expr) in lit:
        if fld not in ftype:
            raise GenError("record %s: literal sets unknown field %s" % (S, fld))
        if var is not None and var not in bound:
            raise GenError("record %s: literal uses %s which decode does not bind" % (S, var))
    if {f for f, _, _ in lit} != set(ftype):
        raise GenError("record %s: literal does not set every field" % S)
    # types of inferred binds come from the field they initialise
    d2 = []
    field_of_var = {}
    for (fld, var, expr) in lit:
        if var is not None:
            t = ftype[fld]
            if expr == "LEFT__":
                m2 = re.match(r"^Either<(.+)>$", t)
                t = _norm_ty(_split_top(m2.group(1))[0]) if m2 else None
            field_of_var[var] = t
    if ctor:
        # a decoded item handed to `new` has the type of the parameter it is passed for (whatever `new` then does with it)
        for (pn, pt), a in zip(ctor["params"], ctor["args"]):
            field_of_var.setdefault(a, pt)
    for (k_, var, ty, offvar, offexpr) in dec_items:
        if k_ == "bind":
            fty = field_of_var.get(var)
            if fty is None:
                raise GenError("record %s: bound variable %s is not a field" % (S, var))
            if ty is not None and ty != fty:
                raise GenError("record %s: %s decoded as %s but the field is %s" % (S, var, ty, fty))
            ty = fty
        d2.append((k_, var, ty, offvar, offexpr))
    return {"file": relfile, "name": S, "fields": fields, "enc": enc_items, "dec": d2, "lit": lit, "final_off": final_off,
            "enc_impl": r"^impl Encode for %s\b" % S, "dec_impl": r"^impl Decode for %s\b" % S, "ctor": ctor,
            "free": ctor is not None or any(it[0] == "left" for it in enc_items)}


def _ty_parts(t):
    m = re.match(r"^(Option|Vec)<(.+)>$", t)
    return (m.group(1), m.group(2)) if m else (None, t)


def record_codecs(*specs):
    """args: <file>:<Struct> ... [leaf=<Type> ...]   (leaf=: a composite type treated as an assumed leaf codec in this unit,
    used for the recursive field TraceED.calls: Vec<TraceED>, which Verus cannot define through trait dispatch)"""
    recs = []
    forced_leaves = [_norm_ty(sp[5:]) for sp in specs if sp.startswith("leaf=")]
    # proved=<Type>:<lemma> : a base type whose codec is proved in the unit itself (not an assumed leaf); <lemma>() gives its law
    proved = {}
    for sp in specs:
        if sp.startswith("proved="):
            t, lem = sp[7:].split(":")
            proved[_norm_ty(t)] = lem
    for sp in specs:
        if sp.startswith("leaf=") or sp.startswith("proved="):
            continue
        f, n = sp.split(":")
        recs.append(_record_parse(f, n))
    names = {r["name"] for r in recs}
    out = ["// ==== generated on this run from the real Encode / Decode impls (rule N37): %s ====" % ", ".join(sorted(names))]
    # ---- leaf types: every base type that is not one of the records and not a generic codec of unit codec
    leaves = []

    def visit(t):
        k, inner = _ty_parts(t)
        if t in forced_leaves:
            if t not in leaves:
                leaves.append(t)
        elif k:
            visit(inner)
        elif t not in names and t not in ("u8", "u32", "u64") and t not in leaves and t not in proved:
            leaves.append(t)
    for r in recs:
        for it in r["enc"]:
            visit(it[2])
        for it in r["dec"]:
            visit(it[2])
    out.append("// leaf codecs: assumed at this level (fixed-width ones are proved by the Kani harnesses on the real files)")
    for L in leaves:
        M = _mangle(L)
        if L != "String" and L not in forced_leaves:
            out.append("#[verifier::external_body]\npub struct %s { _p: () }" % L)
        out.append("pub uninterp spec fn enc_%s(x: %s) -> Seq<u8>;" % (M, L))
        out.append("pub uninterp spec fn dec_%s(bytes: Seq<u8>, offset: int) -> Option<(%s, int)>;" % (M, L))
        out.append("pub uninterp spec fn dec_safe_%s(bytes: Seq<u8>, offset: int) -> bool;" % M)
        out.append("pub uninterp spec fn okv_%s(x: %s) -> bool;" % (M, L))
        out.append("impl Encode for %s {\n    open spec fn enc(&self) -> Seq<u8> { enc_%s(*self) }\n    #[verifier::external_body]\n    fn encode(&self, buffer: &mut Vec<u8>) { unimplemented!() }\n}" % (L, M))
        out.append("impl Decode for %s {\n    open spec fn dec(bytes: Seq<u8>, offset: int) -> Option<(Self, int)> { dec_%s(bytes, offset) }\n    open spec fn dec_safe(bytes: Seq<u8>, offset: int) -> bool { dec_safe_%s(bytes, offset) }\n    #[verifier::external_body]\n    fn decode(bytes: &[u8], offset: usize) -> (r: Result<(Self, usize), VErr>) { unimplemented!() }\n}" % (L, M, M))
        out.append("impl Storable for %s { open spec fn okv(&self) -> bool { okv_%s(*self) } }" % (L, M))
    out.append("")
    either_done = []
    consts = {}   # expr -> (spec name, exec name, type)
    fixeds = {}   # (type, expr) -> (spec, exec)
    for r in recs:
        S = r["name"]
        # ---- real struct
        out.append("/*@extract %s :: struct %s\n@*/" % (r["file"], S))
        # ---- constants written by the encoder (legacy placeholders) and fields re-created by the decoder
        xs = []   # spec expression of each encoded item (over `self` / `v`)
        enc_rewrites = []
        for (k, a, ty) in r["enc"]:
            if k == "field":
                xs.append(("self.%s" % a, ty))
            elif k == "left":
                xs.append(("self.%s->Left_0" % a, ty))
            elif k == "none":
                xs.append((a, ty))
            else:
                if a not in consts:
                    nm = "legacy_%s" % _mangle(a)
                    consts[a] = nm
                    out.append("// `%s` (a placeholder the encoder still writes): its value is left abstract" % a)
                    out.append("pub uninterp spec fn %s() -> %s;" % (nm, ty))
                    out.append("pub axiom fn axiom_%s_storable() ensures %s().okv();" % (nm, nm))
                    out.append("#[verifier::external_body]\npub fn %s_x() -> (r: %s) ensures r == %s() { unimplemented!() }" % (nm, ty, nm))
                xs.append(("%s()" % consts[a], ty))
                if (a + ".encode(buffer)", consts[a] + "_x().encode(buffer)") not in enc_rewrites:
                    enc_rewrites.append((a + ".encode(buffer)", consts[a] + "_x().encode(buffer)"))
        ftype = dict(r["fields"])
        dec_rewrites = []
        fixed_of = {}
        for (fld, var, expr) in r["lit"]:
            if expr is not None and expr != "LEFT__":
                key = (ftype[fld], expr)
                if key not in fixeds:
                    nm = "fixed_%s_%s" % (_mangle(ftype[fld]), _mangle(expr))
                    fixeds[key] = nm
                    out.append("// `%s` as %s (a field the decoder re-creates instead of reading): its value is left abstract" % (expr, ftype[fld]))
                    out.append("pub uninterp spec fn %s() -> %s;" % (nm, ftype[fld]))
                    out.append("#[verifier::external_body]\npub fn %s_x() -> (r: %s) ensures r == %s() { unimplemented!() }" % (nm, ftype[fld], nm))
                fixed_of[fld] = fixeds[key]
                dec_rewrites.append(("%s: %s," % (fld, expr), "%s: %s_x()," % (fld, fixeds[key])))
        n = len(xs)
        # ---- Storable
        conj = []
        for (k, a, ty) in r["enc"]:
            if k == "field":
                conj.append("self.%s.okv()" % a)
            elif k == "left":
                conj += ["self.%s is Left" % a, "self.%s->Left_0.okv()" % a]
        conj += ["self.%s == %s()" % (fld, nm) for fld, nm in fixed_of.items()]
        stored = {a for (k, a, ty) in r["enc"] if k in ("field", "left")}
        if r["free"] and not either_done:
            either_done.append(1)
            out.append("// either::Either as a plain enum")
            out.append("pub enum Either<L, R> { Left(L), Right(R) }\nuse Either::{Left, Right};")
        unstored = [f for f, _ in r["fields"] if f not in stored and f not in fixed_of]
        out.append("impl Storable for %s {\n    open spec fn okv(&self) -> bool {\n        %s\n    }\n}" % (S, "\n        && ".join(conj) if conj else "true"))
        # ---- Encode
        enc_expr = "Seq::<u8>::empty()" + "".join(" + %s.enc()" % x for x, _ in xs)
        bot = ["        proof {", "            let b0 = old(buffer)@;", "            let ee0 = Seq::<u8>::empty();"]
        acc = "b0"
        for i, (x, _) in enumerate(xs, 1):
            bot.append("            let ee%d = ee%d + %s.enc();" % (i, i - 1, x))
            acc_new = "%s + %s.enc()" % (acc, x) if i <= 1 else None
            bot.append("            assert(b0 + ee%d + %s.enc() =~= b0 + ee%d);" % (i - 1, x, i))
        bot.append("            assert(b0 + ee0 =~= b0);")
        bot.append("        }")
        FREE = r["free"]
        if FREE:
            # a record whose encoder has a precondition (an Either field that must be Left) cannot implement the trait method
            # (no `requires` on a trait impl): encoder, decoder and constructor become free functions over the same real bodies,
            # the abstract encoding / decoder plain spec functions, the law a predicate of its own
            lefts = [a for (k, a, ty) in r["enc"] if k == "left"]
            d = ["pub open spec fn enc_%s(v: %s) -> Seq<u8> { %s }" % (S, S, enc_expr.replace("self.", "v.")), "",
                 "/*@extract %s :: impl %s :: fn encode" % (r["file"], r["enc_impl"]),
                 "sig:", "    pub fn %s_encode(this: &%s, buffer: &mut Vec<u8>)" % (S, S),
                 'rewrite_re* SELF "\\\\bself\\\\b" => "this"']
            for a, b in enc_rewrites:
                d.append('rewrite* N37 "%s" => "%s"' % (a, b))
            d.append("contract:")
            d.append("    // the `panic!` of the encoder: the Either field holds the Left form (what `new` builds)")
            d.append("    requires " + ", ".join("this.%s is Left" % a for a in lefts) + ",")
            d.append("    ensures final(buffer)@ == old(buffer)@ + enc_%s(*this)," % S)
            d.append("bottom:")
            d += [x.replace("self.", "this.") for x in bot]
            d.append("@*/")
            out += d
        else:
            d = ["impl Encode for %s {" % S, "    open spec fn enc(&self) -> Seq<u8> { %s }" % enc_expr, "",
                 "    /*@extract %s :: impl %s :: fn encode" % (r["file"], r["enc_impl"])]
            for a, b in enc_rewrites:
                d.append('rewrite* N37 "%s" => "%s"' % (a, b))
            d.append("bottom:")
            d += bot
            d.append("@*/")
            d.append("}")
            out += d
        # ---- Decode
        dec_lines = []
        safe_lines = []
        closers = 0
        for i, (k, var, ty, offvar, offexpr) in enumerate(r["dec"], 1):
            pat = var if k == "bind" else "_"
            dec_lines.append("        match <%s>::dec(bytes, %s) { None => None, Some((%s, %s)) =>" % (ty, offexpr, pat, offvar))
            safe_lines.append("        <%s>::dec_safe(bytes, %s) && match <%s>::dec(bytes, %s) { None => true, Some((_, %s)) =>" % (ty, offexpr, ty, offexpr, offvar))
            closers += 1
        off = r["final_off"]
        def lit_entry(fld, var, expr):
            if expr == "LEFT__":
                return "%s: Either::Left(%s)" % (fld, var)
            if var:
                return fld if var == fld else "%s: %s" % (fld, var)
            return "%s: %s()" % (fld, fixed_of[fld])
        litx = ", ".join(lit_entry(*e) for e in r["lit"])
        dec_lines.append("        Some((%s { %s }, %s))" % (S, litx, off))
        dec_lines.append("        " + "}" * closers)
        safe_lines.append("        true")
        safe_lines.append("        " + "}" * closers)
        if FREE:
            d = ["pub open spec fn dec_%s(bytes: Seq<u8>, offset: int) -> Option<(%s, int)> {" % (S, S)] + dec_lines + ["}",
                 "pub open spec fn dec_safe_%s(bytes: Seq<u8>, offset: int) -> bool {" % S] + safe_lines + ["}", ""]
            if r["ctor"]:
                c = r["ctor"]
                plit = ", ".join(("%s: Either::Left(%s)" % (fld, c["params"][c["args"].index(var)][0]) if expr == "LEFT__"
                                  else ("%s: %s" % (fld, c["params"][c["args"].index(var)][0]) if var else "%s: %s()" % (fld, fixed_of[fld])))
                                 for (fld, var, expr) in r["lit"])
                d += ["impl %s {" % S,
                      "/*@extract %s :: impl %s :: fn new" % (r["file"], c["impl"]), "ret: r"]
                for a, b in dec_rewrites:
                    d.append('rewrite_re N37 "%s" => "%s"' % ((r"\b" + re.escape(a)).replace("\\", "\\\\"), b))
                d += ["contract:", "    ensures r == (%s { %s })," % (S, plit), "@*/", "}", ""]
            d += ["/*@extract %s :: impl %s :: fn decode" % (r["file"], r["dec_impl"]),
                  "sig:", "    pub fn %s_decode(bytes: &[u8], offset: usize) -> (r: Result<(%s, usize), VErr>)" % (S, S),
                  "contract:",
                  "    requires dec_safe_%s(bytes@, offset as int)," % S,
                  "    ensures",
                  "        r is Ok ==> dec_%s(bytes@, offset as int) == Some(((r->Ok_0).0, (r->Ok_0).1 as int))," % S,
                  "        r is Err ==> dec_%s(bytes@, offset as int) is None," % S,
                  "@*/"]
            out += d
        d = ["impl Decode for %s {" % S,
             "    open spec fn dec(bytes: Seq<u8>, offset: int) -> Option<(Self, int)> {"] + dec_lines + ["    }",
             "    open spec fn dec_safe(bytes: Seq<u8>, offset: int) -> bool {"] + safe_lines + ["    }", "",
             "    /*@extract %s :: impl %s :: fn decode" % (r["file"], r["dec_impl"]), "ret: r",
             'rewrite? WHERE "where\\n        Self: Sized," => ""']
        for a, b in dec_rewrites:
            d.append('rewrite N37 "%s" => "%s"' % (a, b))
        d.append("@*/")
        d.append("}")
        if not FREE:
            out += d
        # ---- the law
        if len(r["dec"]) != n:
            # still emit the lemma: it cannot be proved, which is the point (the decoder does not read what the encoder wrote)
            pass
        tys = []
        for _, ty in xs:
            if ty not in tys:
                tys.append(ty)
        for it in r["dec"]:
            if it[2] not in tys:
                tys.append(it[2])
        DEC, SAFE, ENCV = ("<%s>::dec" % S, "<%s>::dec_safe" % S, "v.enc()") if not FREE else ("dec_%s" % S, "dec_safe_%s" % S, "enc_%s(v)" % S)
        LAW = "codec_law::<%s>()" % S if not FREE else "law_%s()" % S
        L = []
        if FREE:
            L += ["pub open spec fn law_%s() -> bool {" % S,
                  "    forall|v: %s, pre: Seq<u8>, post: Seq<u8>| #![trigger %s(pre + %s + post, pre.len() as int)]" % (S, DEC, ENCV),
                  "        v.okv() ==> %s(pre + %s + post, pre.len() as int)" % (SAFE, ENCV),
                  "        && %s(pre + %s + post, pre.len() as int) == Some((v, (pre.len() + %s.len()) as int))" % (DEC, ENCV, ENCV),
                  "}"]
        L += ["// C14: %s decodes back to exactly what was encoded and consumes exactly the bytes that were produced" % S,
             "#[verifier::spinoff_prover]", "#[verifier::rlimit(%d)]" % (40 if not FREE else 120),
             "pub proof fn prop_record_%s()" % S,
             "    requires " + ", ".join("codec_law::<%s>()" % t for t in tys) + ",",
             "    ensures %s," % LAW, "{"]
        for c in sorted(set(consts.values())):
            L.append("    axiom_%s_storable();" % c)
        L.append("    assert forall|v: %s, pre: Seq<u8>, post: Seq<u8>| #![trigger %s(pre + %s + post, pre.len() as int)]" % (S, DEC, ENCV))
        L.append("        v.okv() implies %s(pre + %s + post, pre.len() as int)" % (SAFE, ENCV))
        L.append("        && %s(pre + %s + post, pre.len() as int) == Some((v, (pre.len() + %s.len()) as int)) by {" % (DEC, ENCV, ENCV))
        L.append("        let b = pre + %s + post;" % ENCV)
        L.append("        let ee0 = Seq::<u8>::empty();")
        for i, (x, ty) in enumerate(xs, 1):
            xv = x.replace("self.", "v.")
            L.append("        let x%d: %s = %s; let e%d = x%d.enc(); let ee%d = ee%d + e%d;" % (i, ty, xv, i, i, i, i - 1, i))
        L.append("        let r%d = post;" % n)
        for i in range(n, 0, -1):
            L.append("        let r%d = e%d + r%d;" % (i - 1, i, i))
        for i in range(n, 0, -1):
            L.append("        lemma_rebracket(pre, ee%d, e%d, r%d);" % (i - 1, i, i))
        L.append("        assert(ee0.len() == 0);")
        for i, (x, ty) in enumerate(xs, 1):
            L.append("        lemma_record_step::<%s>(pre, ee%d, x%d, r%d);" % (ty, i - 1, i, i))
        L.append("    }")
        L.append("}")
        out += L
        r["tys"] = tys
        r["unstored"] = unstored
        r["fixed_of"] = fixed_of
        out.append("")
    # ---- everything together: from the leaf laws to every record
    derived = []
    assumed = []
    free_called = []

    def derive(t, stack):
        if ("law", t) in derived:
            return
        k, inner = _ty_parts(t)
        if t in forced_leaves:
            derived.append(("law", t))
            if t not in assumed:
                assumed.append(t)
        elif k:
            if inner in stack:   # recursive type (TraceED.calls: Vec<TraceED>): the inner law is the induction hypothesis
                if t not in assumed:
                    assumed.append(t)
                return
            derive(inner, stack)
            derived.append(("law", t))
            derived.append(("call", "prop_law_%s::<%s>();" % ("option" if k == "Option" else "vec", inner)))
        elif t in names:
            r = [x for x in recs if x["name"] == t][0]
            for ft in r["tys"]:
                derive(ft, stack + [t])
            derived.append(("law", t))
            derived.append(("call", "prop_record_%s();" % t))
            if r["free"]:
                free_called.append(t)
        elif t in ("u8", "u32", "u64"):
            derived.append(("law", t))
            derived.append(("call", "lemma_codec_%s(); lemma_law_of_ok::<%s>();" % (t, t)))
        elif t in proved:
            derived.append(("law", t))
            derived.append(("call", "%s();" % proved[t]))
        else:
            derived.append(("law", t))
            if t not in assumed:
                assumed.append(t)
    for r in recs:
        derive(r["name"], [])
    out.append("// C14: from the laws of the leaf codecs to every record (and the vectors / options of them that are stored)")
    out.append("pub proof fn prop_records_all()")
    out.append("    requires " + ", ".join("codec_law::<%s>()" % t for t in assumed) + ",")
    out.append("    ensures " + ", ".join(("law_%s()" if r["free"] else "codec_law::<%s>()") % r["name"] for r in recs) + ",")
    out.append("{")
    for k, c in derived:
        if k == "call":
            out.append("    " + c)
    out.append("}")
    note = []
    for r in recs:
        note.append("%s: %d encoded items, %d decoded; re-created on decode: %s; never stored: %s" % (
            r["name"], len(r["enc"]), len(r["dec"]), ", ".join("%s" % f for f in r["fixed_of"]) or "-", ", ".join(r["unstored"]) or "-"))
    out.append("// " + "\n// ".join(note))
    return "\n".join(out) + "\n"



def request_limits():
    """C15: the default request-size limit of the server must admit the hex form of a payload of CALLDATA_LIMIT bytes
    (2 characters per byte + `0x`) inside a JSON-RPC envelope; otherwise the hex field refuses bytes the base64 field accepts.
    The lazy_static literal is carried over as written (Verus evaluates the constant expression)."""
    cfg = open(os.path.join(REPO, "src/global/config.rs")).read()
    m = re.search(r"static ref MAX_REQUEST_SIZE_DEFAULT: u32 = ([^;]+);", cfg)
    if not m:
        raise GenError("lazy_static MAX_REQUEST_SIZE_DEFAULT not found")
    expr = m.group(1).strip()
    if not re.fullmatch(r"[0-9A-Za-z_ *+()\-]+", expr):
        raise GenError("MAX_REQUEST_SIZE_DEFAULT has an initialiser this reader does not understand: %r" % expr)
    out = ["// ---- generated from the lazy_static! block of src/global/config.rs on this run (rule N6) ----",
           "pub const MAX_REQUEST_SIZE_DEFAULT: u32 = %s;" % expr,
           "// envelope allowance: method name, the other parameters of brc20_deploy / brc20_call / brc20_transact (pkscript, hashes,",
           "// inscription id, numbers) and JSON punctuation - a few hundred bytes in practice; 4096 is the margin demanded here",
           "pub const ENVELOPE_ALLOWANCE: u32 = 4096;",
           "proof fn prop_default_request_size_admits_limit_payload()",
           "    ensures MAX_REQUEST_SIZE_DEFAULT as int >= 2 * (CALLDATA_LIMIT as int) + 2 + ENVELOPE_ALLOWANCE as int,",
           "{",
           "}"]
    return "\n".join(out) + "\n"

def config_consts(*args):
    """N6: every integer `pub const` of global/config.rs, text carried over as written (a function that starts using another
    of them still compiles); `skip=A,B` leaves out the ones the unit extracts itself."""
    skip = set()
    for a in args:
        if a.startswith("skip="):
            skip |= set(x for x in a[5:].split(",") if x)
    cfg = open(os.path.join(REPO, "src/global/config.rs")).read()
    out = ["// ---- generated from the integer constants of src/global/config.rs on this run (rule N6) ----"]
    for m in re.finditer(r"(?m)^pub const (\w+): (u64|usize|u32) = ([0-9_ *+()]+);", cfg):
        if m.group(1) not in skip:
            out.append("pub const %s: %s = %s;" % (m.group(1), m.group(2), m.group(3)))
    return "\n".join(out) + "\n"


def serde_attrs(*files):
    """C14 (JSON half), derive-generated impls: for every struct that derives both Serialize and Deserialize in the given
    files, one generated obligation per field over its #[serde(..)] attributes - a field the serialiser may leave out must be
    readable when it is missing, a field that is written must be read back, and both directions must use one name.  Purely
    syntactic input (attributes re-read on every run); the obligations themselves are discharged by the verifier."""
    out = ["// ==== generated on this run from the #[serde(..)] field attributes of: %s ====" % ", ".join(files),
           "pub open spec fn omitted_field_is_optional(may_be_omitted: bool, has_default: bool, is_option: bool) -> bool { may_be_omitted ==> has_default || is_option }",
           "pub open spec fn written_field_is_read(skip_serializing: bool, skip_deserializing: bool) -> bool { skip_deserializing ==> skip_serializing }",
           "pub open spec fn one_name(different_names: bool) -> bool { !different_names }"]
    n = 0
    for rel in files:
        text = open(os.path.join(REPO, rel)).read()
        i = text.find("#[cfg(test)]")
        if i >= 0:
            text = text[:i]
        for m in re.finditer(r"#\[derive\(([^\]]*)\)\]\s*(?:///[^\n]*\n\s*|#\[[^\]]*\]\s*)*pub struct (\w+)\s*\{", text):
            derives = m.group(1)
            if "Serialize" not in derives or "Deserialize" not in derives:
                continue
            S = m.group(2)
            # body up to the matching brace
            depth, k = 1, m.end()
            while k < len(text) and depth:
                depth += {"{": 1, "}": -1}.get(text[k], 0)
                k += 1
            body = text[m.end():k - 1]
            container_default = bool(re.search(r"#\[serde\([^\]]*\bdefault\b", text[max(0, m.start() - 400):m.start()]))
            attrs = ""
            for ln in re.split(r"\n", body):
                t = ln.strip()
                if t.startswith("///") or t.startswith("//") or not t:
                    continue
                fm = re.match(r"pub (\w+):\s*(.*?),?\s*$", t)
                if fm and attrs.count("(") == attrs.count(")"):
                    f, ty = fm.group(1), fm.group(2)
                    a = " ".join(attrs.split())
                    skip_if = "skip_serializing_if" in a
                    skip_ser = bool(re.search(r"\bskip_serializing\b(?!_if)", a)) or bool(re.search(r"\bskip\b(?!_)", a))
                    skip_de = bool(re.search(r"\bskip_deserializing\b", a)) or bool(re.search(r"\bskip\b(?!_)", a))
                    has_default = bool(re.search(r"\bdefault\b", a)) or container_default
                    is_option = ty.replace(" ", "").startswith("Option<")
                    rn = re.search(r"rename\s*\(\s*serialize\s*=\s*\"([^\"]*)\"\s*,\s*deserialize\s*=\s*\"([^\"]*)\"", a)
                    diff = bool(rn and rn.group(1) != rn.group(2))
                    b = lambda x: "true" if x else "false"
                    out.append("// %s.%s: %s   [%s]" % (S, f, ty, a or "no serde attribute"))
                    out.append("pub proof fn prop_serde_field_%s_%s()\n    ensures omitted_field_is_optional(%s, %s, %s), written_field_is_read(%s, %s), one_name(%s),\n{}" % (
                        S, f, b(skip_if or (skip_ser and not skip_de)), b(has_default), b(is_option), b(skip_ser), b(skip_de), b(diff)))
                    n += 1
                    attrs = ""
                elif t.startswith("#[") or attrs.count("(") != attrs.count(")"):
                    attrs += " " + t
                else:
                    attrs = ""
    if n == 0:
        raise GenError("no serde-derived struct field found in %s" % (files,))
    return "\n".join(out) + "\n"


def lock_discipline(relfile, *fields):
    """C09 (`wedge the server`): the discipline of the SharedData locks of one file.  std::sync::RwLock may deadlock when the
    thread that holds a read guard asks for the lock again while a writer is queued, and two locks taken in both orders can
    deadlock two threads.  `read_fn` / `write_fn` / `write_fn_unchecked` / `read()` therefore have the precondition `the calling
    thread does not hold this lock`, and every call made INSIDE the closure of one of them has to discharge it:
      - one obligation per method call `self.g(..)` made while lock L is held: g does not (transitively, through self-calls)
        take L;
      - one obligation per lock M taken while L is held: nowhere in the file is L taken while M is held (one order).
    The facts (which function takes which lock, what is called inside which closure) are re-read from the source on every run -
    a syntactic scan, stated as such; the obligations are discharged by the verifier.  Closures are found by bracket matching
    on the masked text; a lock region is the argument list of the call (for `read()`: the statement it occurs in)."""
    from rustscan import code_mask, match_delim
    text = open(os.path.join(REPO, relfile)).read()
    i = text.find("#[cfg(test)]")
    if i >= 0:
        text = text[:i]
    mask = code_mask(text)
    fields = list(fields) or ["db"]
    fns = {}
    for m in re.finditer(r"\bfn (\w+)\s*(?:<[^>(]*>)?\s*\(", mask):
        pe = match_delim(mask, mask.find("(", m.start()))
        ob = mask.find("{", pe)
        semi = mask.find(";", pe)
        if ob < 0 or (0 <= semi < ob):
            continue
        fns[m.group(1)] = (ob, match_delim(mask, ob))
    if not fns:
        raise GenError("lock_discipline: no function found in %s" % relfile)
    ACQ = r"self\s*\.(%s)\s*\.(read_fn|write_fn|write_fn_unchecked|read)\s*\(" % "|".join(map(re.escape, fields))
    direct = {f: set() for f in fns}      # locks taken directly
    calls = {f: set() for f in fns}       # self-methods called anywhere
    regions = []                          # (fn, lock, op, line, inner text)
    for f, (a, b) in fns.items():
        body = mask[a:b]
        calls[f] = set(re.findall(r"\bself\s*\.(\w+)\s*\(", body)) | set(re.findall(r"\bSelf::(\w+)\s*\(", body))
        for m in re.finditer(ACQ, body):
            direct[f].add(m.group(1))
            op = a + m.end() - 1
            if m.group(2) == "read":
                # the guard is a temporary: it lives to the end of the enclosing statement
                # (what is evaluated after it: the rest of the method chain and its arguments)
                k = match_delim(mask, op)
                depth = 0
                en = k
                while en < b:
                    ch = mask[en]
                    if ch in "([{":
                        depth += 1
                    elif ch in ")]}":
                        if depth == 0:
                            break
                        depth -= 1
                    elif ch == ";" and depth == 0:
                        break
                    en += 1
                inner = mask[k:en]
            else:
                inner = mask[op:match_delim(mask, op)]
            regions.append((f, m.group(1), m.group(2), mask[:a + m.start()].count("\n") + 1, inner))
    # transitive: which locks may a call of f take
    takes = {f: set(direct[f]) for f in fns}
    changed = True
    while changed:
        changed = False
        for f in fns:
            for g in calls[f]:
                if g in takes and not takes[g] <= takes[f]:
                    takes[f] |= takes[g]
                    changed = True
    nested = set()   # (outer lock, inner lock) observed
    for (f, L, op, line, inner) in regions:
        for m in re.finditer(ACQ, inner):
            nested.add((L, m.group(1)))
    out = ["// ==== generated on this run from %s: lock regions of %s ====" % (relfile, ", ".join("self." + x for x in fields)),
           "// precondition of read_fn / write_fn / write_fn_unchecked / read(): the calling thread does not hold that lock",
           "pub open spec fn callee_does_not_take_held_lock(callee_takes_it: bool) -> bool { !callee_takes_it }",
           "pub open spec fn one_acquisition_order(reverse_order_occurs: bool) -> bool { !reverse_order_occurs }"]
    n = 0
    for (f, L, op, line, inner) in regions:
        for g in sorted(set(re.findall(r"\bself\s*\.(\w+)\s*\(", inner)) | set(re.findall(r"\bSelf::(\w+)\s*\(", inner))):
            if g not in fns:
                continue
            out.append("// %s:%d  `%s` calls `%s(..)` inside self.%s.%s(..)" % (relfile, line, f, g, L, op))
            out.append("proof fn prop_lock_%s_holding_%s_calls_%s() ensures callee_does_not_take_held_lock(%s) {}" % (f, L, g, "true" if L in takes[g] else "false"))
            n += 1
        for m in re.finditer(ACQ, inner):
            M = m.group(1)
            if M == L:
                out.append("// %s:%d  `%s` takes self.%s again inside self.%s.%s(..)" % (relfile, line, f, M, L, op))
                out.append("proof fn prop_lock_%s_holding_%s_retakes_it() ensures callee_does_not_take_held_lock(true) {}" % (f, L))
            else:
                out.append("// %s:%d  `%s` takes self.%s while holding self.%s" % (relfile, line, f, M, L))
                out.append("proof fn prop_lock_order_%s_%s_then_%s() ensures one_acquisition_order(%s) {}" % (f, L, M, "true" if (M, L) in nested else "false"))
            n += 1
    seen, ded = set(), []
    for ln in out:
        if ln.startswith("proof fn prop_lock"):
            if ln in seen:
                ded.pop()      # its comment line
                n -= 1
                continue
            seen.add(ln)
        ded.append(ln)
    out = ded
    out.append("// %d lock regions in %d functions, %d obligations" % (len(regions), len(fns), n))
    out.append("proof fn prop_lock_regions_seen() ensures %d > 0 {}" % len(regions))
    return "\n".join(out) + "\n"


GENERATORS = {"serde_attrs": serde_attrs, "config_consts": config_consts, "auth_methods": auth_methods, "config_statics": config_statics, "record_codecs": record_codecs, "request_limits": request_limits, "lock_discipline": lock_discipline}
