#!/bin/sh
# dev helper: mut.sh <prop> <file> <sed-expr>   -- apply a sed mutation to /repo, run the check, revert
P=$1; F=$2; E=$3
cp /repo/$F /tmp/mut_backup.rs
sed -i "$E" /repo/$F
if cmp -s /repo/$F /tmp/mut_backup.rs; then echo "MUTATION DID NOT APPLY"; fi
cd /verif && ./check $P > /tmp/mut_out.txt; echo "exit=$?"; cut -c1-200 /tmp/mut_out.txt
cp /tmp/mut_backup.rs /repo/$F
git -C /repo status --short
